/-
  Proofs/PausedHistory.lean — C04, pause half, over operation sequences: while a token is paused on a shard, no mint /
  local burn / burn / NFT create / add quantity / NFT burn — by anyone except the ESDT system contract's own account, with
  any arguments — changes ANY entry of the token (the fungible entry and the entry of every nonce, byte for byte: value,
  flags and metadata) of any account, and the token stays paused. (Wipe, freeze and unfreeze by the system contract are
  the exceptions the property names; they are not in these sequences.)
-/
import Proofs.FrozenHistory
namespace Esdt

/-- the token is paused on this shard -/
def PausedAt (A : Accts) (tok : Bytes) : Prop := pausedIn A (esdtKeyPrefix ++ tok) = true

/-- token identifiers do not alias: a call that names ANOTHER token never addresses a storage key of `tok` -/
def NoAliasCall (tok : Bytes) (c : Call) : Prop :=
  ∀ tok', c.args[0]? = some tok' → tok' ≠ tok → ∀ n n', nftKey (esdtKeyPrefix ++ tok') n' ≠ nftKey (esdtKeyPrefix ++ tok) n

theorem nftKey_zero (tk : Bytes) : nftKey tk 0 = tk := by simp [nftKey, beBytes_zero]

theorem pausedAt_congr {A A' : Accts} {tok : Bytes}
    (h : A'.read systemAccountAddress (esdtKeyPrefix ++ tok) = A.read systemAccountAddress (esdtKeyPrefix ++ tok))
    (hp : PausedAt A tok) : PausedAt A' tok := by
  unfold PausedAt pausedIn at *
  rw [h]; exact hp

/-- one supply operation other than wipe / freeze / unfreeze, not flagged return-after-error, not run by the system
    account, on a shard where `tok` is paused: every entry of `tok` of every account other than the ESDT system contract's
    own is byte for byte as before, and `tok` is still paused -/
theorem paused_step (op : SupplyOp) (hop : op ≠ .wipe ∧ op ≠ .freeze ∧ op ≠ .unfreeze) (env : Env) (c : Call) (A : Accts)
    (out : VMOutput) (ctx' : Ctx) (h : op.run env c { accts := A } = .ok (out, ctx')) (tok : Bytes) (hp : PausedAt A tok)
    (hrae : c.rae = false) (hsys : c.caller ≠ systemAccountAddress) (hna : NoAliasCall tok c) :
    (∀ a n, a ≠ esdtSCAddress →
      ctx'.accts.read a (nftKey (esdtKeyPrefix ++ tok) n) = A.read a (nftKey (esdtKeyPrefix ++ tok) n)) ∧
    PausedAt ctx'.accts tok := by
  -- a write by the caller under a key of token `tok'`, made through the pause gate of `tok'`
  have key : ∀ (tok' k val : Bytes), c.args[0]? = some tok' → PauseOpen A c c.caller tok' →
      (∃ n', k = nftKey (esdtKeyPrefix ++ tok') n') → ctx'.accts = A.write c.caller k val →
      (∀ a n, a ≠ esdtSCAddress →
        ctx'.accts.read a (nftKey (esdtKeyPrefix ++ tok) n) = A.read a (nftKey (esdtKeyPrefix ++ tok) n)) ∧
      PausedAt ctx'.accts tok := by
    intro tok' k val h0 hgate ⟨n', hk⟩ hw
    have hne : ∀ a n, a ≠ esdtSCAddress → ¬ (c.caller = a ∧ k = nftKey (esdtKeyPrefix ++ tok) n) := by
      rintro a n ha ⟨hca, hkk⟩
      by_cases ht : tok' = tok
      · subst ht
        have := hgate hrae (hca ▸ ha)
        unfold PausedAt at hp; rw [this] at hp; cases hp
      · exact hna tok' h0 ht n n' (hk ▸ hkk)
    refine ⟨fun a n ha => by rw [hw, Accts.read_write, if_neg (hne a n ha)], ?_⟩
    apply pausedAt_congr _ hp
    rw [hw, Accts.read_write, if_neg (fun hh => hsys hh.1)]
  cases op with
  | wipe => exact absurd rfl hop.1
  | freeze => exact absurd rfl hop.2.1
  | unfreeze => exact absurd rfl hop.2.2
  | mint =>
    obtain ⟨tok', _, t, v, h0, _, hw, hg⟩ := (localMint_effect env c { accts := A }).elim h
    exact key tok' _ _ h0 hg.pause ⟨0, (nftKey_zero _).symm⟩ hw.written
  | localBurn =>
    obtain ⟨tok', _, t, v, h0, _, hw, hg⟩ := (localBurn_effect env c { accts := A }).elim h
    exact key tok' _ _ h0 hg.pause ⟨0, (nftKey_zero _).symm⟩ hw.written
  | burn =>
    obtain ⟨tok', _, t, v, h0, _, hw, hg⟩ := (esdtBurn_effect env c { accts := A }).elim h
    exact key tok' _ _ h0 hg.pause ⟨0, (nftKey_zero _).symm⟩ hw.written
  | addQty =>
    obtain ⟨tok', nb, qb, t, v, h0, h1, _, hn0, hw, hg⟩ := (addQuantity_effect env c { accts := A }).elim h
    exact key tok' _ _ h0 hg.pause ⟨_, rfl⟩ hw.written
  | nftBurn =>
    obtain ⟨tok', nb, qb, t, v, h0, h1, _, hn0, _, hw, hg⟩ := (nftBurn_effect env c { accts := A }).elim h
    exact key tok' _ _ h0 hg.pause ⟨_, rfl⟩ hw.written
  | create =>
    obtain ⟨tok', qb, name, roy, hash, attrs, n1, A1, h0, _, _, _, _, _, _, _, _, _, hA1, hw⟩ :=
      (nftCreate_effect env c { accts := A }).elim h
    obtain ⟨tok'', h0', hgate⟩ := (pause_nftCreate env c { accts := A }).elim h
    rw [h0] at h0'; cases h0'
    simp only at hA1 hw hgate
    have hne1 : ∀ a n, a ≠ esdtSCAddress →
        ¬ (c.caller = a ∧ nftKey (esdtKeyPrefix ++ tok') n1 = nftKey (esdtKeyPrefix ++ tok) n) := by
      rintro a n ha ⟨hca, hkk⟩
      by_cases ht : tok' = tok
      · subst ht
        have := hgate hrae (hca ▸ ha)
        unfold PausedAt at hp; rw [this] at hp; cases hp
      · exact hna tok' h0 ht n n1 hkk
    have hne2 : ∀ a n, ¬ (c.caller = a ∧ nonceKeyPrefix ++ tok' = nftKey (esdtKeyPrefix ++ tok) n) :=
      fun a n hh => not_tokKey_nonce tok' (hh.2 ▸ tokKey_nft tok n)
    refine ⟨fun a n ha => by rw [hw, Accts.read_write, if_neg (hne2 a n), hA1, Accts.read_write, if_neg (hne1 a n ha)], ?_⟩
    apply pausedAt_congr _ hp
    rw [hw, Accts.read_write, if_neg (fun hh => hsys hh.1), hA1, Accts.read_write, if_neg (fun hh => hsys hh.1)]

/-- what is assumed of every operation of a history in which `tok` stays paused -/
def PStepOK (tok : Bytes) (s : SStep) : Prop :=
  (s.op ≠ .wipe ∧ s.op ≠ .freeze ∧ s.op ≠ .unfreeze) ∧ s.c.rae = false ∧ s.c.caller ≠ systemAccountAddress ∧
  NoAliasCall tok s.c

/-- along ANY sequence of such operations (failed ones rolled back) every entry of the paused token is as at the start -/
theorem paused_history_run (tok : Bytes) : ∀ (steps : List SStep) (A : Accts), (∀ s ∈ steps, PStepOK tok s) →
    PausedAt A tok →
    (∀ a n, a ≠ esdtSCAddress →
      (srun steps A).1.read a (nftKey (esdtKeyPrefix ++ tok) n) = A.read a (nftKey (esdtKeyPrefix ++ tok) n)) ∧
    PausedAt (srun steps A).1 tok := by
  intro steps
  induction steps with
  | nil => intro A _ hp; exact ⟨fun _ _ _ => rfl, hp⟩
  | cons s rest ih =>
    intro A hps hp
    obtain ⟨hop, hrae, hsys, hna⟩ := hps s List.mem_cons_self
    have hps' : ∀ s' ∈ rest, PStepOK tok s' := fun s' hs' => hps s' (List.mem_cons_of_mem _ hs')
    simp only [srun]
    cases he : s.op.run s.env s.c { accts := A } with
    | ok p =>
      obtain ⟨out, ctx'⟩ := p
      simp only []
      obtain ⟨h1, hp1⟩ := paused_step s.op hop s.env s.c A out ctx' he tok hp hrae hsys hna
      obtain ⟨h2, hp2⟩ := ih ctx'.accts hps' hp1
      exact ⟨fun a n ha => by rw [h2 a n ha, h1 a n ha], hp2⟩
    | err e => simp only []; exact ih A hps' hp
    | panic => simp only []; exact ih A hps' hp

end Esdt
