/-
  Proofs/Wp.lean — the `wp` tactic: walks a model function built from bind / pure / guards /
  primitives / if / match and leaves the side conditions, with every passed guard in context.
-/
import Proofs.Monad
namespace Esdt

/-- extension point: specifications of helper functions, added with `macro_rules` where they are proved -/
syntax "wp_spec" : tactic
macro_rules | `(tactic| wp_spec) => `(tactic| fail "no helper specification applies")

/-- helper calls whose result and effect are irrelevant for the property at hand: forget them
    (only sound for postconditions that do not mention the intermediate state — the `intro` names are fresh) -/
macro "wp_forget" : tactic => `(tactic| first
  | (show Post (tick _) _ _; apply Post.intro; intro _ _)
  | (show Post (readKey _ _) _ _; apply Post.intro; intro _ _)
  | (show Post (writeKey _ _ _) _ _; apply Post.intro; intro _ _)
  | (show Post (getAcct _) _ _; apply Post.intro; intro _ _)
  | (show Post (setAcct _ _) _ _; apply Post.intro; intro _ _)
  | (show Post (setOwner _ _) _ _; apply Post.intro; intro _ _)
  | (show Post (setName _ _) _ _; apply Post.intro; intro _ _)
  | (show Post (setReward _ _) _ _; apply Post.intro; intro _ _)
  | (show Post (setBalance _ _) _ _; apply Post.intro; intro _ _)
  | (show Post loadAcct _ _; apply Post.intro; intro _ _)
  | (show Post saveAcct _ _; apply Post.intro; intro _ _)
  | (show Post (marshalToken _) _ _; apply Post.intro; intro _ _)
  | (show Post (marshalRoles _) _ _; apply Post.intro; intro _ _)
  | (show Post (unmarshalToken _) _ _; apply Post.intro; intro _ _)
  | (show Post (unmarshalRoles _) _ _; apply Post.intro; intro _ _)
  | (show Post (verifyPayable _ _) _ _; apply Post.intro; intro _ _)
  | (show Post (verifyPayableIf _ _ _) _ _; apply Post.intro; intro _ _)
  | (show Post (checkSameHash _ _) _ _; apply Post.intro; intro _ _)
  | (show Post (isPaused _) _ _; apply Post.intro; intro _ _)
  | (show Post (checkFrozeAndPause _ _ _ _) _ _; apply Post.intro; intro _ _)
  | (show Post (getESDTDataFromKey _ _) _ _; apply Post.intro; intro _ _)
  | (show Post (saveESDTData _ _ _) _ _; apply Post.intro; intro _ _)
  | (show Post (addToESDTBalance _ _ _ _) _ _; apply Post.intro; intro _ _)
  | (show Post (getNFTOnDestination _ _ _) _ _; apply Post.intro; intro _ _)
  | (show Post (getNFTOnSender _ _ _) _ _; apply Post.intro; intro _ _)
  | (show Post (saveNFT _ _ _ _) _ _; apply Post.intro; intro _ _)
  | (show Post (getRoles _ _) _ _; apply Post.intro; intro _ _)
  | (show Post (saveRoles _ _ _) _ _; apply Post.intro; intro _ _)
  | (show Post (checkAllowed _ _ _) _ _; apply Post.intro; intro _ _)
  | (show Post (checkAllowedIf _ _ _ _) _ _; apply Post.intro; intro _ _)
  | (show Post (getLatestNonce _ _) _ _; apply Post.intro; intro _ _)
  | (show Post (saveLatestNonce _ _ _) _ _; apply Post.intro; intro _ _)
  | (show Post (addCreateRole _ _) _ _; apply Post.intro; intro _ _)
  | (show Post (addNFTToDestination _ _ _ _ _ _) _ _; apply Post.intro; intro _ _)
  | (show Post (transferOne _ _ _ _ _ _ _ _) _ _; apply Post.intro; intro _ _)
  | (show Post (multiSenderLoop _ _ _ _ _ _ _) _ _; apply Post.intro; intro _ _)
  | (show Post (multiDestLoop _ _ _ _ _) _ _; apply Post.intro; intro _ _)
  | (show Post (multiPayloadLoop _ _ _) _ _; apply Post.intro; intro _ _)
  | (show Post (skvLoop _ _ _ _) _ _; apply Post.intro; intro _ _))

/-- one step of weakest-precondition reasoning for `Post` -/
macro "wp_step" : tactic => `(tactic| with_reducible first
  | apply Post.bind
  | apply Post.pure
  | apply Post.fail
  | apply Post.goPanic
  | (apply Post.guardE; intro _)
  | (apply Post.argAt; intro _ _)
  | (apply Post.deref; intro _ _)
  | wp_spec
  | wp_forget
  | (apply Post.ite <;> intro _)
  | (show Post _ _ _; dsimp only)
  | (show Post _ _ _; split))

macro "wp" : tactic => `(tactic| repeat' wp_step)

/-- forwarded gas: sum of the gas limits of all output transfers -/
def fwd (out : VMOutput) : Nat := ((out.outAccts.flatMap (·.transfers)).map (·.gasLimit)).sum

/-- C06's inequality -/
def GasOK (gas : Nat) (out : VMOutput) : Prop := out.gasRemaining + fwd out ≤ gas

@[simp] theorem fwd_addOutputTransfer (s f : Bytes) (a : List Bytes) (r : Bytes) (gl ct : Nat) (out : VMOutput) :
    fwd (addOutputTransfer s f a r gl ct out) = out.gasRemaining := by
  simp [fwd, addOutputTransfer]

@[simp] theorem gasRemaining_addOutputTransfer (s f : Bytes) (a : List Bytes) (r : Bytes) (gl ct : Nat) (out : VMOutput) :
    (addOutputTransfer s f a r gl ct out).gasRemaining = 0 := by
  simp [addOutputTransfer]

@[simp] theorem fwd_addNFTTransfer (s r f : Bytes) (a : List Bytes) (gl g ct : Nat) (out : VMOutput) :
    fwd (addNFTTransfer s r f a gl g ct out) = g := by
  simp [fwd, addNFTTransfer]

@[simp] theorem gasRemaining_addNFTTransfer (s r f : Bytes) (a : List Bytes) (gl g ct : Nat) (out : VMOutput) :
    (addNFTTransfer s r f a gl g ct out).gasRemaining = out.gasRemaining := by
  simp [addNFTTransfer]

theorem u64_le (n : Nat) : u64 n ≤ n := Nat.mod_le _ _
theorem u64_lt (n : Nat) : u64 n < two64 := Nat.mod_lt _ (by decide)
theorem u64_of_lt (n : Nat) (h : n < two64) : u64 n = n := Nat.mod_eq_of_lt h

theorem sum_drop_le (l : List Nat) : ∀ n, (l.drop n).sum ≤ l.sum := by
  induction l with
  | nil => intro n; simp
  | cons x xs ih =>
    intro n
    cases n with
    | zero => simp
    | succ n => have := ih n; simp; omega

theorem le_sum_of_mem (l : List Nat) (x : Nat) (h : x ∈ l) : x ≤ l.sum := by
  induction l with
  | nil => simp at h
  | cons y ys ih =>
    simp at h
    rcases h with rfl | h
    · simp
    · have := ih h; simp; omega

end Esdt
