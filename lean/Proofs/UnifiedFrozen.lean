/-
  Proofs/UnifiedFrozen.lean — C04 in the mixed world (Proofs/Unified.lean), fungible part: while an account is frozen for a
  token, its balance of the token does not move and it stays frozen along ANY history that interleaves ESDTTransfer traffic
  (user transactions, deliveries, refusals, refunds — on any shard, by anybody) with calls of the 20 functions that are not
  transfers; the only steps that may change it are the ones the property names: a wipe / unfreeze of that very account and
  token by the system contract, and a refund (return-after-error) to that account.
  (ESDTNFTTransfer / MultiESDTNFTTransfer steps are not in this theorem: per call they are C04.frozen_or_paused_blocks_* /
  paused_blocks_multi_item, over histories they are left to the gates oracle.)
-/
import Proofs.UnifiedMeta
import Proofs.FrozenHistory
namespace Esdt

/-- `a` is frozen for `tok` and holds `v` of it -/
def Fz (a tok : Bytes) (v : Int) (A : Accts) : Prop :=
  FrozenAt A a tok ∧ balOf (A.read a (esdtKeyPrefix ++ tok)) = v

variable {a tok : Bytes} {v : Int}

theorem Fz.congr {A A' : Accts} (h : A'.read a (esdtKeyPrefix ++ tok) = A.read a (esdtKeyPrefix ++ tok))
    (hf : Fz a tok v A) : Fz a tok v A' := by
  obtain ⟨hb, hfr⟩ := frozenAt_congr h hf.1
  exact ⟨hfr, by rw [hb]; exact hf.2⟩

theorem Fz.write_other {A : Accts} (hf : Fz a tok v A) (a1 k1 val : Bytes)
    (hne : ¬ (a1 = a ∧ k1 = esdtKeyPrefix ++ tok)) : Fz a tok v (A.write a1 k1 val) :=
  Fz.congr (by rw [Accts.read_write, if_neg hne]) hf

theorem ntc_fz (a tok : Bytes) (v : Int) : NTC (Fz a tok v) := by
  refine ⟨fun A a1 k1 val hk h => h.write_other a1 k1 val (fun he => hk (he.2 ▸ tokKey_esdt tok)), fun A a1 x hx h => ?_⟩
  exact Fz.congr (read_set_fields A a1 x hx a _) h

/-! ### ESDTTransfer -/

/-- a balance change through the gate cannot hit the frozen entry -/
theorem fz_addTo (a1 k1 : Bytes) (d : Int) (hsc : a ≠ esdtSCAddress) :
    Pres (Fz a tok v) (addToESDTBalance a1 k1 d false) := by
  intro c hf
  apply Post.mono (spec_addToESDTBalance a1 k1 d false c)
  intro _ c' ⟨t, v0, hold, _, _, _, hg, hw⟩
  by_cases he : a1 = a ∧ k1 = esdtKeyPrefix ++ tok
  · exfalso
    obtain ⟨ha, hk⟩ := he
    obtain ⟨tf, htf, hfr⟩ := hf.1
    rw [ha, hk, htf] at hold
    cases hold
    have := (hg rfl (ha ▸ hsc)).1
    rw [this] at hfr; cases hfr
  · rw [hw]; exact hf.write_other _ _ _ he

/-- … and one aimed at another slot does not touch it, whatever its flag -/
theorem fz_addTo_other (a1 k1 : Bytes) (d : Int) (rae : Bool)
    (hne : ¬ (a1 = a ∧ k1 = esdtKeyPrefix ++ tok)) : Pres (Fz a tok v) (addToESDTBalance a1 k1 d rae) := by
  intro c hf
  apply Post.mono (spec_addToESDTBalance a1 k1 d rae c)
  intro _ c' ⟨t, v0, _, _, _, _, _, hw⟩
  rw [hw]; exact hf.write_other _ _ _ hne

/-- an ESDTTransfer that is not flagged return-after-error (every user transaction, every delivery) -/
theorem fz_esdtTransfer (env : Env) (c : Call) (hrae : c.rae = false) (hsc : a ≠ esdtSCAddress) :
    Pres (Fz a tok v) (esdtTransfer env c) := by
  unfold Esdt.esdtTransfer
  simp only [hrae]
  pz
  all_goals exact fz_addTo _ _ _ hsc

/-- an ESDTTransfer (flagged or not) of another token, or between two other accounts -/
theorem fz_esdtTransfer_other (env : Env) (c : Call)
    (hoth : ∀ t0, c.args[0]? = some t0 → t0 ≠ tok ∨ (c.caller ≠ a ∧ c.rcv ≠ a)) :
    Pres (Fz a tok v) (esdtTransfer env c) := by
  unfold Esdt.esdtTransfer
  refine Pres.bind (Pres.of_ro (ro_checkBasic _)) (fun _ => ?_)
  refine Pres.bind (Pres.of_ro (RO.guardE _ _)) (fun _ => ?_)
  apply Pres.argAt_bind
  intro tokenID h0
  have hne : ∀ a1, (a1 = c.caller ∨ a1 = c.rcv) → ¬ (a1 = a ∧ esdtKeyPrefix ++ tokenID = esdtKeyPrefix ++ tok) := by
    intro a1 ha1 ⟨hea, hek⟩
    have htk : tokenID = tok := List.append_cancel_left hek
    rcases hoth tokenID h0 with h | ⟨h1, h2⟩
    · exact h htk
    · rcases ha1 with h' | h'
      · exact h1 (h' ▸ hea)
      · exact h2 (h' ▸ hea)
  pz
  all_goals first
    | exact fz_addTo_other _ _ _ _ (hne _ (Or.inl rfl))
    | exact fz_addTo_other _ _ _ _ (hne _ (Or.inr rfl))

/-! ### the 20 functions that are not transfers -/

/-- what is assumed of a call for the frozen pair: it is not flagged return-after-error; a wipe / unfreeze is aimed at
    another account or token; a create / add URI / update attributes does not alias the token's fungible key -/
structure LocalFzOK (a tok : Bytes) (f : FnId) (c : Call) : Prop where
  rae : c.rae = false
  notTarget : (f = .esdtWipe ∨ f = .esdtUnFreeze) → ∀ t0, c.args[0]? = some t0 → ¬ (c.rcv = a ∧ t0 = tok)
  noAlias : (f = .nftCreate ∨ f = .nftAddURI ∨ f = .nftUpdateAttributes) → ∀ tok' n, c.args[0]? = some tok' →
    nftKey (esdtKeyPrefix ++ tok') n ≠ esdtKeyPrefix ++ tok

theorem local_fz_step (f : FnId) (env : Env) (c : Call) (A : Accts) (out : VMOutput) (ctx' : Ctx) (hI : SInv A)
    (ok : LocalOK env f c A) (okf : LocalFzOK a tok f c) (hsc : a ≠ esdtSCAddress) (hsys : a ≠ systemAccountAddress)
    (hf : Fz a tok v A) (h : exec env f c { accts := A } = .ok (out, ctx')) : Fz a tok v ctx'.accts := by
  have supplyCase : ∀ op : SupplyOp, op ≠ .wipe ∧ op ≠ .unfreeze → isPauseFn f = false → (op = .create → f = .nftCreate) →
      op.run env c { accts := A } = .ok (out, ctx') → Fz a tok v ctx'.accts := by
    intro op hop hp hcr hrun
    obtain ⟨_, hrs⟩ := ok.notSys hp
    obtain ⟨hb, hfr⟩ := frozen_step op hop env c A out ctx' hI hrs hrun a tok hf.1 okf.rae hsc
      (fun ho => okf.noAlias (Or.inl (hcr ho)))
    exact ⟨hfr, by rw [hb]; exact hf.2⟩
  have plainCase : PlainFn f → Fz a tok v ctx'.accts := fun hp =>
    plain_pres (ntc_fz a tok v) hp env c { accts := A } ctx' out hf h
  have otherSlot : ∀ (t0 val : Bytes), c.args[0]? = some t0 → (f = .esdtWipe ∨ f = .esdtUnFreeze) →
      ctx'.accts = A.write c.rcv (esdtKeyPrefix ++ t0) val → Fz a tok v ctx'.accts := by
    intro t0 val h0 hfn hw
    rw [hw]
    refine hf.write_other _ _ _ (fun he => okf.notTarget hfn t0 h0 ⟨he.1, List.append_cancel_left he.2⟩)
  have metaCase : ∀ {tok' nb : Bytes} {t : Token} {m m' : MetaData}, c.args[0]? = some tok' →
      MetaWrite A ctx'.accts c.caller (esdtKeyPrefix ++ tok') (u64 (beNat nb)) t m m' →
      (f = .nftAddURI ∨ f = .nftUpdateAttributes) → Fz a tok v ctx'.accts := by
    intro tok' nb t m m' h0 hw hfn
    rw [hw.written]
    exact hf.write_other _ _ _ (fun he => okf.noAlias (Or.inr hfn) tok' m.nonce h0 he.2)
  have hnt := ok.notTransfer
  unfold exec at h
  cases f <;> simp only [runFn] at h
  · exact plainCase .claim
  · exact plainCase .owner
  · exact plainCase .name
  · exact plainCase .skv
  · obtain ⟨t0, _, hw⟩ := (pause_effect true env c { accts := A }).elim h
    simp only at hw
    rw [hw]; exact hf.write_other _ _ _ (fun he => hsys he.1.symm)
  · obtain ⟨t0, _, hw⟩ := (pause_effect false env c { accts := A }).elim h
    simp only at hw
    rw [hw]; exact hf.write_other _ _ _ (fun he => hsys he.1.symm)
  · cases hnt
  · exact supplyCase .burn (by decide) rfl (fun ho => by cases ho) h
  · exact supplyCase .freeze (by decide) rfl (fun ho => by cases ho) h
  · obtain ⟨t0, t, h0, _, _, _, hw⟩ := (toggleFreeze_effect .unfreeze (by decide) env c { accts := A }).elim h
    exact otherSlot t0 _ h0 (Or.inr rfl) hw
  · obtain ⟨t0, t, h0, _, _, _, hw⟩ := (wipe_effect env c { accts := A }).elim h
    exact otherSlot t0 _ h0 (Or.inl rfl) hw
  · exact plainCase .unSetRole
  · exact plainCase .setRole
  · exact supplyCase .localBurn (by decide) rfl (fun ho => by cases ho) h
  · exact supplyCase .mint (by decide) rfl (fun ho => by cases ho) h
  · exact supplyCase .addQty (by decide) rfl (fun ho => by cases ho) h
  · exact supplyCase .nftBurn (by decide) rfl (fun ho => by cases ho) h
  · exact supplyCase .create (by decide) rfl (fun _ => rfl) h
  · cases hnt
  · exact plainCase .handOver
  · obtain ⟨tok', nb, attrs, t, m, h0, _, _, _, hw⟩ := (updateAttributes_effect env c { accts := A }).elim h
    exact metaCase h0 hw (Or.inr rfl)
  · obtain ⟨tok', nb, t, m, h0, _, _, hw⟩ := (addURI_effect env c { accts := A }).elim h
    exact metaCase h0 hw (Or.inl rfl)
  · cases hnt

/-! ### the world: ESDTTransfer traffic mixed with the 20 other functions -/

/-- the frozen account lives on shard `i` -/
def FzW (a tok : Bytes) (v : Int) (i : Nat) (w : UWorld) : Prop := ∃ A, w.shards[i]? = some A ∧ Fz a tok v A

theorem getElem?_set_pres {P : Accts → Prop} {l : List Accts} {i : Nat} {A : Accts} (hA : l[i]? = some A) (hP : P A)
    (s : Nat) (A1 : Accts) (h1 : ∀ A0, l[s]? = some A0 → s = i → P A1) : ∃ A', (l.set s A1)[i]? = some A' ∧ P A' := by
  rw [List.getElem?_set]
  by_cases hs : s = i
  · subst hs
    have hlt : s < l.length := by
      rcases Nat.lt_or_ge s l.length with h | h
      · exact h
      · rw [List.getElem?_eq_none h] at hA; cases hA
    rw [if_pos rfl, if_pos hlt]
    exact ⟨A1, rfl, h1 A hA rfl⟩
  · rw [if_neg hs]; exact ⟨A, hA, hP⟩

/-- what is assumed of a step for the frozen pair -/
def UFzStepOK (a tok : Bytes) (w : UWorld) : UStep → Prop
  | .ft (.user c) => c.rae = false
  | .ft (.deliver _) => True
  | .ft (.refund i) => ∀ m, w.ft[i]? = some m → m.tok ≠ tok ∨ (m.rcv ≠ a ∧ m.caller ≠ a)
  | .call _ f c => LocalFzOK a tok f c
  | .nft _ => False
  | .multi _ => False

theorem ustep_fz (e : Env) (w : UWorld) (st : UStep) (i : Nat) (hI : UInv e w) (hok : UStepOK e w st)
    (hfz : UFzStepOK a tok w st) (hsc : a ≠ esdtSCAddress) (hsys : a ≠ systemAccountAddress)
    (hF : FzW a tok v i w) : FzW a tok v i (ustep e w st) := by
  obtain ⟨A, hA, hf⟩ := hF
  have hrunOn : ∀ {s : Nat} {c : Call} {A1 : Accts}, runOn e w.toN s c = some A1 →
      (∀ env, Pres (Fz a tok v) (esdtTransfer env c)) → ∃ A', (w.shards.set s A1)[i]? = some A' ∧ Fz a tok v A' := by
    intro s c A1 hr hp
    obtain ⟨A0, out, ctx', hA0, hex, hA1⟩ := runOn_some hr
    apply getElem?_set_pres hA hf
    intro A0' hA0' hs
    subst hs
    have : A0 = A := by
      have h1 : w.toN.shards[s]? = some A0 := hA0
      simp only [UWorld.toN] at h1
      rw [hA] at h1; cases h1; rfl
    subst this
    rw [← hA1]
    exact (hp _ { accts := A0 } hf).elim hex
  cases st with
  | nft st => exact absurd hfz (by simp [UFzStepOK])
  | multi st => exact absurd hfz (by simp [UFzStepOK])
  | call s f c =>
    simp only [ustep]
    cases hAs : w.shards[s]? with
    | none => exact ⟨A, hA, hf⟩
    | some A0 =>
      simp only []
      cases hex : exec { e with self := s } f c { accts := A0 } with
      | ok p =>
        obtain ⟨out, ctx'⟩ := p
        simp only []
        apply getElem?_set_pres hA hf
        intro A0' hA0' hs
        subst hs
        have : A0 = A := by rw [hA] at hAs; cases hAs; rfl
        subst this
        exact local_fz_step f _ c A0 out ctx' (hI.shards A0 (List.mem_of_getElem? hA)) (hok A0 hA) hfz hsc hsys hf hex
      | err er => exact ⟨A, hA, hf⟩
      | panic => exact ⟨A, hA, hf⟩
  | ft st =>
    simp only [ustep]
    show ∃ A', (nstep e w.toN st).shards[i]? = some A' ∧ Fz a tok v A'
    have keep : ∃ A', w.toN.shards[i]? = some A' ∧ Fz a tok v A' := ⟨A, hA, hf⟩
    cases st with
    | user c =>
      have hrae : c.rae = false := hfz
      simp only [nstep]
      cases hr : runOn e w.toN (shardOf e.nshards c.caller) c with
      | none => exact keep
      | some A1 =>
        simp only []
        have := hrunOn hr (fun env => fz_esdtTransfer env c hrae hsc)
        split
        · exact this
        · split <;> exact this
    | deliver j =>
      simp only [nstep]
      cases hm : w.toN.inflight[j]? with
      | none => exact keep
      | some m =>
        simp only []
        split
        · exact keep
        · cases hr : runOn e w.toN (shardOf e.nshards m.rcv) (deliveryCall m) with
          | none => exact keep
          | some A1 => exact hrunOn hr (fun env => fz_esdtTransfer env (deliveryCall m) rfl hsc)
    | refund j =>
      simp only [nstep]
      cases hm : w.toN.inflight[j]? with
      | none => exact keep
      | some m =>
        simp only []
        split
        · exact keep
        · cases hr : runOn e w.toN (shardOf e.nshards m.caller) (refundCall m) with
          | none => exact keep
          | some A1 =>
            have hcond := hfz m hm
            refine hrunOn hr (fun env => fz_esdtTransfer_other env (refundCall m) (fun t0 ht0 => ?_))
            simp [refundCall] at ht0
            subst ht0
            rcases hcond with h | ⟨h1, h2⟩
            · exact Or.inl h
            · exact Or.inr ⟨h1, h2⟩

/-- every step is admissible for the frozen pair, on the world it runs on -/
def UFzStepsOK (e : Env) (a tok : Bytes) : List UStep → UWorld → Prop
  | [], _ => True
  | st :: rest, w => UFzStepOK a tok w st ∧ UFzStepsOK e a tok rest (ustep e w st)

/-- FULL over histories of ESDTTransfer traffic mixed with the 20 non-transfer functions -/
theorem unified_fz_history (e : Env) (i : Nat) (hsc : a ≠ esdtSCAddress) (hsys : a ≠ systemAccountAddress) :
    ∀ (steps : List UStep) (w : UWorld), UInv e w → UStepsOK e steps w → UFzStepsOK e a tok steps w →
      FzW a tok v i w → FzW a tok v i (urun e steps w).1 := by
  intro steps
  induction steps with
  | nil => intro w _ _ _ hF; exact hF
  | cons st rest ih =>
    intro w hI hok hfz hF
    obtain ⟨h1, hrest⟩ := hok
    obtain ⟨f1, frest⟩ := hfz
    have hI1 := (ustep_ledger e w st hI h1).2
    have hF1 := ustep_fz e w st i hI h1 f1 hsc hsys hF
    simp only [urun]
    exact ih (ustep e w st) hI1 hrest frest hF1

end Esdt
