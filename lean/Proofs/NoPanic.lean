/-
  Proofs/NoPanic.lean — no built-in function reaches a panic outcome (C11), function by function.
-/
import Proofs.Safe
namespace Esdt

macro "npx" : tactic => `(tactic| repeat' (first | np_step | (show NP _ _; split)))

/-! ### functions that read no token entry -/

theorem np_claimDeveloperRewards (env : Env) (c : Call) (ctx : Ctx) : NP (claimDeveloperRewards env c) ctx := by
  unfold claimDeveloperRewards; npx
theorem np_changeOwnerAddress (env : Env) (c : Call) (ctx : Ctx) : NP (changeOwnerAddress env c) ctx := by
  unfold changeOwnerAddress; npx
theorem np_setUserName (env : Env) (c : Call) (ctx : Ctx) : NP (setUserName env c) ctx := by
  unfold setUserName; npx
theorem np_esdtPause (p : Bool) (env : Env) (c : Call) (ctx : Ctx) : NP (esdtPause p env c) ctx := by
  unfold esdtPause; npx
theorem np_esdtRoles (s : Bool) (env : Env) (c : Call) (ctx : Ctx) : NP (esdtRoles s env c) ctx := by
  unfold esdtRoles checkBasic; npx
theorem np_addCreateRole (a k : Bytes) (ctx : Ctx) : NP (addCreateRole a k) ctx := by
  unfold addCreateRole; npx
macro_rules | `(tactic| np_spec) => `(tactic| exact np_addCreateRole _ _ _)
theorem np_esdtNFTCreateRoleTransfer (env : Env) (c : Call) (ctx : Ctx) : NP (esdtNFTCreateRoleTransfer env c) ctx := by
  unfold esdtNFTCreateRoleTransfer checkBasic; npx

end Esdt

namespace Esdt

theorem np_skvLoop (env : Env) (c : Call) : ∀ (n : Nat) (l : List Bytes) (g : Nat) (ctx : Ctx), l.length = 2 * n →
    NP (skvLoop env c l g) ctx := by
  intro n
  induction n with
  | zero =>
    intro l g ctx hl
    have : l = [] := List.eq_nil_of_length_eq_zero (by omega)
    subst this; unfold skvLoop; np
  | succ n ih =>
    intro l g ctx hl
    match l, hl with
    | [], hl => simp at hl
    | [_], hl => simp at hl; omega
    | k :: v :: rest, hl =>
      have hr : rest.length = 2 * n := by simp at hl; omega
      unfold skvLoop
      np
      split
      · exact ih _ _ _ hr
      · np
        exact ih _ _ _ hr

theorem np_saveKeyValue (env : Env) (c : Call) (ctx : Ctx) : NP (saveKeyValue env c) ctx := by
  unfold saveKeyValue
  np
  have he : c.args.length % 2 = 0 := by
    have := ‹decide (c.args.length % 2 ≠ 0) = false›; simpa using this
  apply NP.bind_any (np_skvLoop env c (c.args.length / 2) _ _ _ (by omega)); intro _ _
  np

end Esdt

namespace Esdt

/-- what reading a token entry relies on: whatever the slot decodes to carries a `Value` -/
def ValAt (A : Accts) (a k : Bytes) : Prop := ∀ t, tokenOf (A.read a k) = some t → t.value.isSome = true

theorem np_addToESDTBalance (a k : Bytes) (d : Int) (rae : Bool) (c : Ctx) (h : ValAt c.accts a k) :
    NP (addToESDTBalance a k d rae) c := by
  unfold addToESDTBalance
  apply NP.bind_of (np_getESDTDataFromKey _ _ _)
  apply Post.mono (spec_getESDTDataFromKey a k c)
  intro t c1 ⟨_, ht⟩
  np
  apply NP.bind_deref (h t ht); intro v _
  np
  exact np_saveESDTData _ _ _ _ rfl

/-- sender-side NFT lookup followed by a value dereference -/
theorem valAt_of_sender {A : Accts} {a k : Bytes} {t : Token} (h : ValAt A a k) (hne : A.read a k ≠ [])
    (hdec : decToken (A.read a k) = some t) : t.value.isSome = true :=
  h t (by simp [tokenOf, hne, hdec])

theorem np_addNFTToDestination (env : Env) (dst : Bytes) (t : Token) (tk : Bytes) (mv rae : Bool) (c : Ctx)
    (hv : t.value.isSome = true)
    (h : ∀ cur, tokenOf (c.accts.read dst (nftKey tk (mdNonce t))) = some cur → cur.value.isSome = true) :
    NP (addNFTToDestination env dst t tk mv rae) c := by
  unfold addNFTToDestination
  apply NP.bind_of (np_verifyPayableIf _ _ _ _)
  apply Post.mono (spec_verifyPayableIf env mv dst c)
  intro _ c1 ⟨h1, _⟩
  show NP (do
      let r ← getNFTOnDestination dst tk (mdNonce t)
      match r with
      | (cur, _) => do
        checkFrozeAndPause dst tk cur rae
        checkSameHash cur t
        let tv ← deref t.value
        let cv ← deref cur.value
        let _ ← saveNFT dst tk { t with value := some (tv + cv) } rae
        pure { t with value := some (tv + cv) }) c1
  apply NP.bind_of (np_getNFTOnDestination _ _ _ _)
  apply Post.mono (spec_getNFTOnDestination dst tk (mdNonce t) c1)
  intro r c2 ⟨_, hcur, _⟩
  obtain ⟨cur, isNew⟩ := r
  simp only at hcur ⊢
  rw [h1] at hcur
  have hcv := h cur hcur
  np
  apply NP.bind_any (np_checkSameHash cur t _); intro _ _
  apply NP.bind_deref hv; intro tv _
  apply NP.bind_deref hcv; intro cv _
  apply NP.bind_any (np_saveNFT _ _ _ _ _ rfl); intro _ _
  np

/-! ### single-read token functions -/

theorem np_esdtLocalMint (env : Env) (c : Call) (ctx : Ctx)
    (h : ∀ tok, c.args[0]? = some tok → ValAt ctx.accts c.caller (esdtKeyPrefix ++ tok)) :
    NP (esdtLocalMint env c) ctx := by
  unfold esdtLocalMint checkLocalAction checkBasic
  np
  apply NP.bind_any (np_addToESDTBalance _ _ _ _ _ (by simp only [*])); intro _ _
  np

theorem np_esdtLocalBurn (env : Env) (c : Call) (ctx : Ctx)
    (h : ∀ tok, c.args[0]? = some tok → ValAt ctx.accts c.caller (esdtKeyPrefix ++ tok)) :
    NP (esdtLocalBurn env c) ctx := by
  unfold esdtLocalBurn checkLocalAction checkBasic
  np
  apply NP.bind_any (np_addToESDTBalance _ _ _ _ _ (by simp only [*])); intro _ _
  np

theorem np_esdtBurn (env : Env) (c : Call) (ctx : Ctx)
    (h : ∀ tok, c.args[0]? = some tok → ValAt ctx.accts c.caller (esdtKeyPrefix ++ tok)) :
    NP (esdtBurn env c) ctx := by
  unfold esdtBurn checkBasic
  np
  apply NP.bind_any (np_addToESDTBalance _ _ _ _ _ (h _ ‹_›)); intro _ _
  np

theorem np_esdtFreezeWipe (k : FreezeKind) (env : Env) (c : Call) (ctx : Ctx)
    (h : ∀ tok, c.args[0]? = some tok → ValAt ctx.accts c.rcv (esdtKeyPrefix ++ tok)) :
    NP (esdtFreezeWipe k env c) ctx := by
  unfold esdtFreezeWipe
  np
  split
  · apply NP.bind_any (np_getESDTDataFromKey _ _ _); intro _ _
    np
  · apply NP.bind_of (np_getESDTDataFromKey _ _ _)
    apply Post.mono (spec_getESDTDataFromKey _ _ _)
    intro t c1 ⟨_, ht⟩
    have hv : t.value.isSome = true := h _ ‹_› t ht
    refine NP.bind_any (np_saveESDTData _ _ _ _ (by exact hv)) ?_; intro _ _
    np

end Esdt

namespace Esdt

/-! ### NFT functions on the caller's own entry -/

theorem np_esdtNFTCreate (env : Env) (c : Call) (ctx : Ctx) : NP (esdtNFTCreate env c) ctx := by
  unfold esdtNFTCreate checkCreateBurnAdd checkBasic
  np
  refine NP.bind_any (np_saveNFT _ _ _ _ _ (by rfl)) ?_; intro _ _
  np

/-- common part: sender lookup, then the continuation gets the entry with its `Value` (and metadata when nonce ≠ 0) -/
theorem NP.bind_getNFTOnSender {β} {a tk : Bytes} {n : Nat} {f : Token → M β} {c : Ctx}
    (hval : ValAt c.accts a (nftKey tk n))
    (h : ∀ t c1, c1.accts = c.accts → t.value.isSome = true → (0 < n → t.md.isSome = true) → NP (f t) c1) :
    NP (getNFTOnSender a tk n >>= f) c := by
  apply NP.bind_of (np_getNFTOnSender _ _ _ _)
  apply Post.mono (spec_getNFTOnSender a tk n c)
  intro t c1 ⟨h1, hne, hdec, hmd, _⟩
  exact h t c1 h1 (valAt_of_sender hval hne hdec) hmd

theorem np_esdtNFTAddQuantity (env : Env) (c : Call) (ctx : Ctx)
    (h : ∀ tok nb, c.args[0]? = some tok → c.args[1]? = some nb →
      ValAt ctx.accts c.caller (nftKey (esdtKeyPrefix ++ tok) (u64 (beNat nb)))) :
    NP (esdtNFTAddQuantity env c) ctx := by
  unfold esdtNFTAddQuantity checkCreateBurnAdd checkBasic
  np
  apply NP.bind_getNFTOnSender (by simp only [*])
  intro t c2 _ hv _
  np
  apply NP.bind_deref hv; intro v _
  refine NP.bind_any (np_saveNFT _ _ _ _ _ (by rfl)) ?_; intro _ _
  np

theorem np_esdtNFTBurn (env : Env) (c : Call) (ctx : Ctx)
    (h : ∀ tok nb, c.args[0]? = some tok → c.args[1]? = some nb →
      ValAt ctx.accts c.caller (nftKey (esdtKeyPrefix ++ tok) (u64 (beNat nb)))) :
    NP (esdtNFTBurn env c) ctx := by
  unfold esdtNFTBurn checkCreateBurnAdd checkBasic
  np
  apply NP.bind_getNFTOnSender (by simp only [*])
  intro t c2 _ hv _
  np
  apply NP.bind_deref hv; intro v _
  np
  refine NP.bind_any (np_saveNFT _ _ _ _ _ (by rfl)) ?_; intro _ _
  np

theorem np_esdtNFTAddURI (env : Env) (c : Call) (ctx : Ctx)
    (h : ∀ tok nb, c.args[0]? = some tok → c.args[1]? = some nb →
      ValAt ctx.accts c.caller (nftKey (esdtKeyPrefix ++ tok) (u64 (beNat nb)))) :
    NP (esdtNFTAddURI env c) ctx := by
  unfold esdtNFTAddURI checkCreateBurnAdd checkBasic
  np
  have hn0 : 0 < u64 (beNat _) := Nat.pos_of_ne_zero (of_decide_eq_false ‹decide (u64 (beNat _) = 0) = false›)
  apply NP.bind_getNFTOnSender (by simp only [*])
  intro t c2 _ hv hmd
  apply NP.bind_deref (hmd hn0); intro m _
  refine NP.bind_any (np_saveNFT _ _ _ _ _ (by exact hv)) ?_; intro _ _
  np

theorem np_esdtNFTUpdateAttributes (env : Env) (c : Call) (ctx : Ctx)
    (h : ∀ tok nb, c.args[0]? = some tok → c.args[1]? = some nb →
      ValAt ctx.accts c.caller (nftKey (esdtKeyPrefix ++ tok) (u64 (beNat nb)))) :
    NP (esdtNFTUpdateAttributes env c) ctx := by
  unfold esdtNFTUpdateAttributes checkCreateBurnAdd checkBasic
  np
  have hn0 : 0 < u64 (beNat _) := Nat.pos_of_ne_zero (of_decide_eq_false ‹decide (u64 (beNat _) = 0) = false›)
  apply NP.bind_getNFTOnSender (by simp only [*])
  intro t c2 _ hv hmd
  apply NP.bind_deref (hmd hn0); intro m _
  refine NP.bind_any (np_saveNFT _ _ _ _ _ (by exact hv)) ?_; intro _ _
  np

end Esdt

namespace Esdt

/-! ### canonical entries: what the protocol itself writes -/

theorem leBytes_length_mono : ∀ (n m : Nat), m ≤ n → (leBytes m).length ≤ (leBytes n).length := by
  intro n
  induction n using Nat.strongRecOn with
  | _ n ih =>
    intro m hm
    by_cases hm0 : m = 0
    · subst hm0; rw [leBytes_zero]; simp
    · have hn0 : n ≠ 0 := by omega
      rw [leBytes_pos m hm0, leBytes_pos n hn0]
      simp only [List.length_cons]
      have := ih (n / 256) (Nat.div_lt_self (Nat.pos_of_ne_zero hn0) (by decide)) (m / 256) (Nat.div_le_div_right hm)
      omega

theorem encBigInt_length_mono (v v' : Int) (h0 : 0 ≤ v') (h : v' ≤ v) :
    (encBigInt (some v')).length ≤ (encBigInt (some v)).length := by
  unfold encBigInt
  by_cases hv' : v' = 0
  · subst hv'
    by_cases hv : v = 0
    · simp [hv]
    · have hpos : v.natAbs ≠ 0 := by omega
      have := beBytes_ne_nil _ hpos
      have hl : 0 < (beBytes v.natAbs).length := List.length_pos_iff.mpr this
      simp [hv]; omega
  · have hv : v ≠ 0 := by omega
    simp only [hv', hv, if_false]
    have hle : v'.natAbs ≤ v.natAbs := by omega
    have := leBytes_length_mono _ _ hle
    simp only [List.length_cons, beBytes, List.length_reverse]
    omega

/-- a token the protocol can have written: within the codec's domain, with a non-negative `Value` -/
structure GoodTok (t : Token) : Prop where
  ok : TokenOK t
  val : ∃ v, t.value = some v ∧ 0 ≤ v

theorem GoodTok.shrink {t : Token} (h : GoodTok t) (v v' : Int) (hv : t.value = some v) (h0 : 0 ≤ v') (hle : v' ≤ v) :
    GoodTok { t with value := some v' } := by
  refine ⟨⟨h.ok.type, ?_, h.ok.properties, h.ok.reserved, h.ok.md⟩, v', rfl, h0⟩
  have := h.ok.value
  rw [hv] at this
  exact Nat.lt_of_le_of_lt (encBigInt_length_mono v v' h0 hle) this

theorem goodTok_default : GoodTok fungibleDefault := by
  refine ⟨⟨by decide, by decide, by decide, by decide, ?_⟩, 0, rfl, Int.le_refl _⟩
  intro m hm; cases hm

/-- slot holding nothing or a canonical encoding of a good token -/
def GoodAt (A : Accts) (a k : Bytes) : Prop := A.read a k = [] ∨ ∃ t, A.read a k = encToken t ∧ GoodTok t

theorem GoodAt.tokenOf {A : Accts} {a k : Bytes} (h : GoodAt A a k) (t : Token) (ht : tokenOf (A.read a k) = some t) :
    GoodTok t := by
  rcases h with h | ⟨t0, h, hg⟩
  · rw [h] at ht; simp [Esdt.tokenOf] at ht; subst ht; exact goodTok_default
  · rw [h, tokenOf_encToken t0 hg.ok] at ht; cases ht; exact hg

theorem GoodAt.valAt {A : Accts} {a k : Bytes} (h : GoodAt A a k) : ValAt A a k := by
  intro t ht
  obtain ⟨v, hv, _⟩ := (h.tokenOf t ht).val
  simp [hv]

theorem goodAt_write_stored (A : Accts) (a k : Bytes) (t : Token) (h : GoodTok t) :
    GoodAt (A.write a k (storedForm t)) a k := by
  unfold GoodAt
  rw [Accts.read_write, if_pos ⟨rfl, rfl⟩]
  unfold storedForm
  split
  · exact Or.inl rfl
  · exact Or.inr ⟨t, rfl, h⟩

theorem valAt_write_ne (A : Accts) (a k v a2 k2 : Bytes) (hne : ¬ (a = a2 ∧ k = k2)) (h : ValAt A a2 k2) :
    ValAt (A.write a k v) a2 k2 := by
  unfold ValAt; rw [Accts.read_write, if_neg hne]; exact h

/-! ### ESDTTransfer -/

theorem np_esdtTransfer (env : Env) (c : Call) (ctx : Ctx)
    (hS : ∀ tok, c.args[0]? = some tok → present env.nshards env.self c.caller = true →
      GoodAt ctx.accts c.caller (esdtKeyPrefix ++ tok))
    (hD : ∀ tok, c.args[0]? = some tok → present env.nshards env.self c.rcv = true →
      GoodAt ctx.accts c.rcv (esdtKeyPrefix ++ tok)) :
    NP (esdtTransfer env c) ctx := by
  unfold esdtTransfer checkBasic
  np
  rename_i tok h0 _ _ _
  cases hs : present env.nshards env.self c.caller <;> cases hd : present env.nshards env.self c.rcv <;>
    simp only [Bool.false_eq_true, if_false, if_true]
  · npx
  · np
    apply NP.bind_any (np_addToESDTBalance _ _ _ _ _ (by simp only [*]; exact (hD tok h0 hd).valAt)); intro _ _
    npx
  · np
    apply NP.bind_any (np_addToESDTBalance _ _ _ _ _ (hS tok h0 hs).valAt); intro _ _
    npx
  · np
    apply NP.bind_of (np_addToESDTBalance _ _ _ _ _ (hS tok h0 hs).valAt)
    apply Post.mono (spec_addToESDTBalance _ _ _ _ ctx)
    intro _ c1 ⟨t, v, ht, _, hv, hnn, _, hw⟩
    np
    have hval : ValAt c1.accts c.rcv (esdtKeyPrefix ++ tok) := by
      rw [hw]
      by_cases hself : c.caller = c.rcv
      · rw [← hself]
        have hg := (hS tok h0 hs).tokenOf t ht
        exact (goodAt_write_stored _ _ _ _ (hg.shrink v _ hv hnn (by omega))).valAt
      · exact valAt_write_ne _ _ _ _ _ _ (fun ⟨e, _⟩ => hself e) (hD tok h0 hd).valAt
    apply NP.bind_any (np_addToESDTBalance _ _ _ _ _ (by rename_i hc; rw [hc]; exact hval)); intro _ _
    npx

end Esdt

namespace Esdt

/-! ### ESDTNFTTransfer -/

/-- every token-keyed slot of an account decodes (if at all) to a token carrying a `Value` -/
def AcctVal (A : Accts) (a : Bytes) : Prop := ∀ s, ValAt A a (esdtKeyPrefix ++ s)

theorem AcctVal.nft {A : Accts} {a : Bytes} (h : AcctVal A a) (tok : Bytes) (n : Nat) :
    ValAt A a (nftKey (esdtKeyPrefix ++ tok) n) := by
  have := h (tok ++ beBytes n)
  simpa [nftKey, List.append_assoc] using this

theorem np_esdtNFTTransferSender (env : Env) (c : Call) (ctx : Ctx) (hlen : 4 ≤ c.args.length)
    (hpres : present env.nshards env.self c.caller = true)
    (hS : AcctVal ctx.accts c.caller)
    (hD : ∀ dst, c.args[3]? = some dst → env.self = shardOf env.nshards dst → AcctVal ctx.accts dst) :
    NP (esdtNFTTransferSender env c) ctx := by
  unfold esdtNFTTransferSender
  simp only [hpres, Bool.not_true, Bool.false_eq_true, if_false]
  np
  rename_i tok _ dst hdst _ hneq _ _ nb _ hnz
  have hn0 : 0 < u64 (beNat nb) := Nat.pos_of_ne_zero (of_decide_eq_false hnz)
  apply NP.bind_of (np_getNFTOnSender _ _ _ _)
  apply Post.mono (spec_getNFTOnSender _ _ _ ctx)
  intro t c1 ⟨h1, hne, hdec, hmd, _⟩
  have hv : t.value.isSome = true := valAt_of_sender (hS.nft tok _) hne hdec
  have hmd' : t.md.isSome = true := hmd hn0
  np
  apply NP.bind_deref hv; intro v _
  np
  apply NP.bind_of (np_saveNFT _ _ _ _ _ rfl)
  apply Post.mono (spec_saveNFT _ _ _ _ c1)
  intro _ c2 ⟨_, _, _, _, h2⟩
  by_cases hx : env.self = shardOf env.nshards dst
  · simp only [hx, decide_true, if_true, Bool.not_true, Bool.false_eq_true, if_false]
    np
    have hne' : dst ≠ c.caller := of_decide_eq_false hneq
    refine NP.bind_of (np_addNFTToDestination env dst _ _ _ _ _ rfl ?_) ?_
    · intro cur hcur
      rename_i hc3
      rw [hc3, h2, h1, Accts.read_write, if_neg (fun ⟨e, _⟩ => hne' e.symm)] at hcur
      exact (hD dst hdst hx).nft tok _ cur hcur
    · apply Post.mono (spec_addNFTToDestination env dst _ _ _ _ _)
      intro t' c4 ⟨_, _, _, _, _, _, _, _, _, ht', _⟩
      have hmd3 : t'.md.isSome = true := by rw [ht']; exact hmd'
      repeat' (first | np_step | (apply NP.bind_deref hmd3; intro _ _) | (show NP _ _; split))
  · simp only [hx, decide_false, Bool.false_eq_true, if_false, Bool.not_false, if_true]
    repeat' (first | np_step | (apply NP.bind_deref hmd'; intro _ _) | (show NP _ _; split))

end Esdt

namespace Esdt

/-- a protocol-generated NFT payload: decodes (if at all) to a token with `Value` and metadata -/
def PayloadOK (b : Bytes) : Prop := ∀ t, decToken b = some t → t.value.isSome = true ∧ t.md.isSome = true

theorem np_esdtNFTTransfer (env : Env) (c : Call) (ctx : Ctx)
    (hreach : c.caller = c.rcv → present env.nshards env.self c.caller = true)
    (hS : c.caller = c.rcv → AcctVal ctx.accts c.caller)
    (hD : ∀ dst, c.args[3]? = some dst → c.caller = c.rcv → env.self = shardOf env.nshards dst → AcctVal ctx.accts dst)
    (hR : c.caller ≠ c.rcv → AcctVal ctx.accts c.rcv)
    (hP : c.caller ≠ c.rcv → ∀ b, c.args[3]? = some b → PayloadOK b) :
    NP (esdtNFTTransfer env c) ctx := by
  unfold esdtNFTTransfer checkBasic
  np
  have hlen : 4 ≤ c.args.length := by np_bound
  by_cases hself : c.caller = c.rcv
  · simp only [hself, if_true]
    have := np_esdtNFTTransferSender env c ctx hlen (hreach hself) (hS hself) (fun d hd hx => hD d hd hself hx)
    simpa [hself] using this
  · simp only [hself, if_false]
    npg
    rename_i tok _ payload hpl
    apply NP.bind_of (np_unmarshalToken _ _)
    apply Post.mono (spec_unmarshalToken _ ctx)
    intro t c1 ⟨h1, hdec⟩
    obtain ⟨hv, hmd⟩ := hP hself payload hpl t hdec
    refine NP.bind_any (np_addNFTToDestination env c.rcv t _ _ _ _ hv ?_) ?_
    · intro cur hcur
      rw [h1] at hcur
      exact (hR hself).nft tok _ cur hcur
    · intro _ _
      repeat' (first | np_step | (apply NP.bind_deref hmd; intro _ _) | (show NP _ _; split))

end Esdt

namespace Esdt

/-! ### MultiESDTNFTTransfer: argument-derived counts and indices

The per-item ledger helpers run on intermediate states of the same call.  The loops are proved panic-free relative to any
state invariant `I` that (a) makes each per-item helper panic-free and (b) is preserved by it; the per-item obligations on a
concrete well-formed state are `np_addToESDTBalance`, `np_addNFTToDestination`, `np_transferOne`. -/

structure ItemsSafe (env : Env) (c : Call) (I : Accts → Prop) : Prop where
  one_np : ∀ l dst tok n q v ctx, dst ≠ c.caller → c.args[0]? = some dst → I ctx.accts →
    NP (transferOne env c l dst tok n q v) ctx
  one_inv : ∀ l dst tok n q v ctx, dst ≠ c.caller → c.args[0]? = some dst → I ctx.accts →
    Post (transferOne env c l dst tok n q v) ctx (fun _ c' => I c'.accts)

/-- the destination side's helpers -/
structure DestItemsSafe (env : Env) (c : Call) (I : Accts → Prop) : Prop where
  dest_np : ∀ t tok mv ctx, I ctx.accts → t.value.isSome = true → t.md.isSome = true →
    NP (addNFTToDestination env c.rcv t (esdtKeyPrefix ++ tok) mv c.rae) ctx
  dest_inv : ∀ t tok mv ctx, I ctx.accts → (∃ b, decToken b = some t) →
    Post (addNFTToDestination env c.rcv t (esdtKeyPrefix ++ tok) mv c.rae) ctx (fun _ c' => I c'.accts)
  bal_np : ∀ tok d ctx, I ctx.accts → NP (addToESDTBalance c.rcv (esdtKeyPrefix ++ tok) d c.rae) ctx
  bal_inv : ∀ tok d ctx, I ctx.accts →
    Post (addToESDTBalance c.rcv (esdtKeyPrefix ++ tok) d c.rae) ctx (fun _ c' => I c'.accts)

theorem post_transferOne_value (env : Env) (c : Call) (l : Bool) (dst tok : Bytes) (n q : Nat) (v : Bool) (ctx : Ctx) :
    Post (transferOne env c l dst tok n q v) ctx (fun t _ => t.value.isSome = true) := by
  apply Post.mono (transferOne_effect env c l dst tok n q v ctx)
  intro t' _ ⟨t, _, _, _, _, _, _, _, _, hf, ht⟩
  cases l
  · rw [(hf rfl).1]; rfl
  · obtain ⟨_, _, _, _, _, e, _⟩ := ht rfl; rw [e]; rfl

theorem post_multiSenderLoop (env : Env) (c : Call) (l : Bool) (dst : Bytes) (v : Bool) (I : Accts → Prop)
    (hI : ItemsSafe env c I) (hd1 : dst ≠ c.caller) (hd2 : c.args[0]? = some dst) :
    ∀ n idx ctx, I ctx.accts → Post (multiSenderLoop env c l dst v n idx) ctx
      (fun r c' => I c'.accts ∧ ∀ p ∈ r.1, p.2.value.isSome = true) := by
  intro n
  induction n with
  | zero => intro idx ctx h; unfold multiSenderLoop; exact Post.pure ⟨h, by simp⟩
  | succ n ih =>
    intro idx ctx h
    unfold multiSenderLoop
    xsteps
    apply Post.mono (Post.and (hI.one_inv _ _ _ _ _ _ _ hd1 hd2 h) (post_transferOne_value _ _ _ _ _ _ _ _ _))
    intro t c1 ⟨h1, ht⟩
    xsteps
    apply Post.mono (ih _ _ h1)
    intro r c2 ⟨h2, hr⟩
    obtain ⟨ts, logs⟩ := r
    apply Post.pure
    refine ⟨h2, ?_⟩
    intro p hp
    simp only [List.mem_cons] at hp
    rcases hp with rfl | hp
    · exact ht
    · exact hr p hp

theorem np_multiSenderLoop (env : Env) (c : Call) (l : Bool) (dst : Bytes) (v : Bool) (I : Accts → Prop)
    (hI : ItemsSafe env c I) (hd1 : dst ≠ c.caller) (hd2 : c.args[0]? = some dst) :
    ∀ n idx ctx, I ctx.accts → idx + 3 * n ≤ c.args.length → NP (multiSenderLoop env c l dst v n idx) ctx := by
  intro n
  induction n with
  | zero => intro idx ctx _ _; unfold multiSenderLoop; np
  | succ n ih =>
    intro idx ctx h hb
    unfold multiSenderLoop
    npg
    apply NP.bind_of (hI.one_np _ _ _ _ _ _ _ hd1 hd2 h)
    apply Post.mono (hI.one_inv _ _ _ _ _ _ _ hd1 hd2 h)
    intro _ c1 h1
    apply NP.bind_any (ih _ _ h1 (by omega)); intro r _
    obtain ⟨ts, logs⟩ := r
    np

theorem np_multiPayloadLoop (env : Env) : ∀ toks g ctx, (∀ p ∈ toks, p.2.value.isSome = true) →
    NP (multiPayloadLoop env toks g) ctx := by
  intro toks
  induction toks with
  | nil => intro g ctx _; unfold multiPayloadLoop; np
  | cons p rest ih =>
    intro g ctx hv
    obtain ⟨tokenID, t⟩ := p
    have hrest : ∀ p ∈ rest, p.2.value.isSome = true := fun p hp => hv p (by simp [hp])
    unfold multiPayloadLoop
    split
    · np
      apply NP.bind_any (ih _ _ hrest); intro r _
      obtain ⟨a, b⟩ := r
      np
    · apply NP.bind_deref (hv (tokenID, t) (by simp)); intro _ _
      apply NP.bind_any (ih _ _ hrest); intro r _
      obtain ⟨a, b⟩ := r
      np

theorem np_multiTransferSender (env : Env) (c : Call) (ctx : Ctx) (I : Accts → Prop) (hI : ItemsSafe env c I)
    (h0 : I ctx.accts) (hlen : 4 ≤ c.args.length) (hphys : c.args.length < two63)
    (hpres : present env.nshards env.self c.caller = true) :
    NP (multiTransferSender env c) ctx := by
  unfold multiTransferSender
  simp only [hpres, Bool.not_true, Bool.false_eq_true, if_false]
  npg
  rename_i dst hd2 _ hneq _ a1 _ _ hn hmin _
  have hd1 : dst ≠ c.caller := of_decide_eq_false hneq
  have hb : 2 + 3 * u64 (beNat a1) ≤ c.args.length := by
    have h1 : ¬ (u64 (beNat a1) > c.args.length / 3) := of_decide_eq_false hn
    have h2 : ¬ (c.args.length < u64 (u64 (u64 (beNat a1) * 3) + 2)) := of_decide_eq_false hmin
    simp only [u64, two64, two63] at *
    omega
  repeat' (first
    | npg_step
    | (apply NP.bind_ro (np_loadAcct _) ro_loadAcct; intro _ c1 hc1
       have h0 : I c1.accts := by rw [hc1]; exact h0)
    | (apply NP.bind_of (np_multiSenderLoop env c _ dst _ I hI hd1 hd2 _ _ _ (by assumption) (by omega))
       apply Post.mono (post_multiSenderLoop env c _ dst _ I hI hd1 hd2 _ _ _ (by assumption))
       intro r _ ⟨_, hvals⟩)
    | (apply NP.bind_any (np_multiPayloadLoop env _ _ _ (by assumption)); intro _ _)
    | np_step
    | (show NP _ _; split))

end Esdt

namespace Esdt

theorem np_multiDestLoop (env : Env) (c : Call) (m : Nat) (I : Accts → Prop) (hI : DestItemsSafe env c I)
    (hP : ∀ b ∈ c.args, PayloadOK b) :
    ∀ n idx ctx, I ctx.accts → idx + 3 * n ≤ c.args.length → NP (multiDestLoop env c m n idx) ctx := by
  intro n
  induction n with
  | zero => intro idx ctx _ _; unfold multiDestLoop; np
  | succ n ih =>
    intro idx ctx h hb
    unfold multiDestLoop
    npg
    rename_i a2 ha2
    split
    · apply NP.bind_of (np_unmarshalToken _ _)
      apply Post.mono (spec_unmarshalToken _ ctx)
      intro t c1 ⟨h1, hdec⟩
      obtain ⟨hv, hmd⟩ := hP a2 (List.mem_of_getElem? ha2) t hdec
      have h1' : I c1.accts := by rw [h1]; exact h
      apply NP.bind_of (hI.dest_np _ _ _ _ h1' hv hmd)
      apply Post.mono (hI.dest_inv _ _ _ _ h1' ⟨_, hdec⟩)
      intro _ c2 h2
      npg
      apply NP.bind_any (ih _ _ h2 (by omega)); intro _ _
      np
    · apply NP.bind_ro (np_verifyPayableIf _ _ _ _) (ro_verifyPayableIf _ _ _); intro _ c1 h1
      have h1' : I c1.accts := by rw [h1]; exact h
      apply NP.bind_of (hI.bal_np _ _ _ h1')
      apply Post.mono (hI.bal_inv _ _ _ h1')
      intro _ c2 h2
      npg
      apply NP.bind_any (ih _ _ h2 (by omega)); intro _ _
      np

/-- MultiESDTNFTTransfer, relative to a state invariant for the per-item helpers: no index, count or allocation panic -/
theorem np_multiTransfer (env : Env) (c : Call) (ctx : Ctx) (I : Accts → Prop)
    (hI : c.caller = c.rcv → ItemsSafe env c I) (hD : c.caller ≠ c.rcv → DestItemsSafe env c I)
    (h0 : I ctx.accts) (hphys : c.args.length < two63)
    (hreach : c.caller = c.rcv → present env.nshards env.self c.caller = true)
    (hP : c.caller ≠ c.rcv → ∀ b ∈ c.args, PayloadOK b) :
    NP (multiTransfer env c) ctx := by
  unfold multiTransfer checkBasic
  npg
  have hlen : 4 ≤ c.args.length := by np_bound
  by_cases hself : c.caller = c.rcv
  · simp only [hself, if_true]
    have := np_multiTransferSender env c ctx I (hI hself) h0 hlen hphys (hreach hself)
    simpa [hself] using this
  · simp only [hself, if_false]
    npg
    rename_i a0 _ _ hn hmin
    have hb : 1 + 3 * u64 (beNat a0) ≤ c.args.length := by
      have h1 : ¬ (u64 (beNat a0) > c.args.length / 3) := of_decide_eq_false hn
      have h2 : ¬ (c.args.length < u64 (u64 (u64 (beNat a0) * 3) + 1)) := of_decide_eq_false hmin
      simp only [u64, two64, two63] at *
      omega
    apply NP.bind_any (np_multiDestLoop env c _ I (hD hself) (hP hself) _ _ _ h0 (by omega)); intro _ _
    repeat' (first | np_step | (show NP _ _; split))

/-- the wrapped-count guard (F4 class): a token count above a third of the argument count is refused before any loop,
    slice or index depends on it — sender side -/
theorem multiTransferSender_count_guard (env : Env) (c : Call) (ctx ctx' : Ctx) (out : VMOutput) (a1 : Bytes)
    (h1 : c.args[1]? = some a1) (h : multiTransferSender env c ctx = .ok (out, ctx')) :
    u64 (beNat a1) ≤ c.args.length / 3 ∧ u64 (beNat a1) ≠ 0 := by
  have hp : Post (multiTransferSender env c) ctx (fun _ _ => u64 (beNat a1) ≤ c.args.length / 3 ∧ u64 (beNat a1) ≠ 0) := by
    unfold multiTransferSender
    xsteps
    rename_i a1' h1' hz hn _ _
    rw [h1] at h1'; cases h1'
    apply Post.intro
    intro _ _
    exact ⟨by have := of_decide_eq_false hn; omega, of_decide_eq_false hz⟩
  exact hp.elim h

end Esdt

namespace Esdt

/-- one sender-side item of a multi transfer on a concrete state: panic-free when the two accounts' token slots carry
    values -/
theorem np_transferOne (env : Env) (c : Call) (l : Bool) (dst tok : Bytes) (n q : Nat) (v : Bool) (ctx : Ctx)
    (hS : AcctVal ctx.accts c.caller) (hne : dst ≠ c.caller)
    (hD : l = true → AcctVal ctx.accts dst) :
    NP (transferOne env c l dst tok n q v) ctx := by
  unfold transferOne
  npg
  apply NP.bind_of (np_getNFTOnSender _ _ _ _)
  apply Post.mono (spec_getNFTOnSender _ _ _ ctx)
  intro t c1 ⟨h1, hne1, hdec, hmdn, _⟩
  have hv : t.value.isSome = true := valAt_of_sender (hS.nft tok _) hne1 hdec
  apply NP.bind_deref hv; intro x _
  npg
  apply NP.bind_of (np_saveNFT _ _ _ _ _ rfl)
  apply Post.mono (spec_saveNFT _ _ _ _ c1)
  intro _ c2 ⟨_, _, _, _, h2⟩
  cases l
  · simp only [Bool.false_eq_true, if_false]; np
  · simp only [if_true]
    refine np_addNFTToDestination env dst _ _ _ _ _ rfl ?_
    intro cur hcur
    rw [h2, h1, Accts.read_write, if_neg (fun ⟨e, _⟩ => hne e.symm)] at hcur
    exact (hD rfl).nft tok _ cur hcur

end Esdt
