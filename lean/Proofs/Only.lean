/-
  Proofs/Only.lean — role lists and nonce counters change only through the functions made for it (all 23 functions, by the
  frame theorems).  Used by C03 / C07 and by the hand-over world (Proofs/NetworkNonce.lean).
-/
import Proofs.Authority
namespace Esdt

/-- a role list can only change through set-role / unset-role / hand-over: every other function leaves every role key
    of every account untouched, whoever calls it -/
theorem roles_only_through (f : FnId) (hf : f ≠ .setRole ∧ f ≠ .unSetRole ∧ f ≠ .nftCreateRoleTransfer)
    (env : Env) (c : Call) (ctx ctx' : Ctx) (out : VMOutput) (h : exec env f c ctx = .ok (out, ctx')) (a tok : Bytes) :
    ctx'.accts.read a (roleKeyPrefix ++ tok) = ctx.accts.read a (roleKeyPrefix ++ tok) := by
  unfold exec at h
  have r := Frame.refl
  have nokey : ∀ (n : Bool) (t s : Bytes), roleKeyPrefix ++ tok ≠ esdtKeyPrefix ++ t ++ s := by
    intro n t s he
    have := congrArg (List.take 7) he
    simp [esdtKeyPrefix, roleKeyPrefix, ascii] at this
  have nononce : ∀ t : Bytes, roleKeyPrefix ++ tok ≠ nonceKeyPrefix ++ t := by
    intro t he
    have := congrArg (List.take 7) he
    simp [nonceKeyPrefix, roleKeyPrefix, ascii] at this
  have tf : ∀ n, ¬ tokenFootprint false n c a (.key (roleKeyPrefix ++ tok)) := by
    rintro n ⟨_, t, _, ⟨s, hs⟩ | ⟨hr, _⟩ | ⟨_, hn⟩⟩
    · exact nokey n t s hs
    · cases hr
    · exact nononce t hn
  obtain ⟨h1, h2, h3⟩ := hf
  cases f <;> simp only [runFn] at h
  · exact (frame_claimDeveloperRewards env c ctx _ (r _ _)).elim h a (.key _) (by simp [acctFootprint])
  · exact (frame_changeOwnerAddress env c ctx _ (r _ _)).elim h a (.key _) (by simp [acctFootprint])
  · exact (frame_setUserName env c ctx _ (r _ _)).elim h a (.key _) (by simp [acctFootprint])
  · apply (frame_saveKeyValue env c ctx _ (r _ _)).elim h a (.key _)
    simp only [skvFootprint]; rintro ⟨_, _, hal⟩
    simp [isAllowedToSaveUnderKey, protectedPrefix, roleKeyPrefix, ascii] at hal; omega
  · exact (frame_esdtPause true env c ctx _ (r _ _)).elim h a (.key _) (tf _)
  · exact (frame_esdtPause false env c ctx _ (r _ _)).elim h a (.key _) (tf _)
  · exact (frame_esdtTransfer env c ctx _ (r _ _)).elim h a (.key _) (tf _)
  · exact (frame_esdtBurn env c ctx _ (r _ _)).elim h a (.key _) (tf _)
  · exact (frame_esdtFreezeWipe .freeze env c ctx _ (r _ _)).elim h a (.key _) (tf _)
  · exact (frame_esdtFreezeWipe .unfreeze env c ctx _ (r _ _)).elim h a (.key _) (tf _)
  · exact (frame_esdtFreezeWipe .wipe env c ctx _ (r _ _)).elim h a (.key _) (tf _)
  · exact absurd rfl h2
  · exact absurd rfl h1
  · exact (frame_esdtLocalBurn env c ctx _ (r _ _)).elim h a (.key _) (tf _)
  · exact (frame_esdtLocalMint env c ctx _ (r _ _)).elim h a (.key _) (tf _)
  · exact (frame_esdtNFTAddQuantity env c ctx _ (r _ _)).elim h a (.key _) (tf _)
  · exact (frame_esdtNFTBurn env c ctx _ (r _ _)).elim h a (.key _) (tf _)
  · exact (frame_esdtNFTCreate env c ctx _ (r _ _)).elim h a (.key _) (tf _)
  · exact (frame_esdtNFTTransfer env c ctx _ (r _ _)).elim h a (.key _) (tf _)
  · exact absurd rfl h3
  · exact (frame_esdtNFTUpdateAttributes env c ctx _ (r _ _)).elim h a (.key _) (tf _)
  · exact (frame_esdtNFTAddURI env c ctx _ (r _ _)).elim h a (.key _) (tf _)
  · exact (frame_multiTransfer env c ctx _ (r _ _)).elim h a (.key _) (tf _)

/-- counters change only through the holder's own creates and through hand-overs: every other function leaves every
    nonce counter of every account untouched -/
theorem counters_only_through (f : FnId) (hf : f ≠ .nftCreate ∧ f ≠ .nftCreateRoleTransfer)
    (env : Env) (c : Call) (ctx ctx' : Ctx) (out : VMOutput) (h : exec env f c ctx = .ok (out, ctx')) (a tok : Bytes) :
    ctx'.accts.read a (nonceKeyPrefix ++ tok) = ctx.accts.read a (nonceKeyPrefix ++ tok) := by
  unfold exec at h
  have r := Frame.refl
  have nokey : ∀ (t s : Bytes), nonceKeyPrefix ++ tok ≠ esdtKeyPrefix ++ t ++ s := by
    intro t s he
    have := congrArg (List.take 7) he
    simp [esdtKeyPrefix, nonceKeyPrefix, ascii] at this
  have norole : ∀ t : Bytes, nonceKeyPrefix ++ tok ≠ roleKeyPrefix ++ t := by
    intro t he
    have := congrArg (List.take 7) he
    simp [nonceKeyPrefix, roleKeyPrefix, ascii] at this
  have tf : ∀ rr, ¬ tokenFootprint rr false c a (.key (nonceKeyPrefix ++ tok)) := by
    rintro rr ⟨_, t, _, ⟨s, hs⟩ | ⟨_, hr⟩ | ⟨hn, _⟩⟩
    · exact nokey t s hs
    · exact norole t hr
    · cases hn
  obtain ⟨h1, h2⟩ := hf
  cases f <;> simp only [runFn] at h
  · exact (frame_claimDeveloperRewards env c ctx _ (r _ _)).elim h a (.key _) (by simp [acctFootprint])
  · exact (frame_changeOwnerAddress env c ctx _ (r _ _)).elim h a (.key _) (by simp [acctFootprint])
  · exact (frame_setUserName env c ctx _ (r _ _)).elim h a (.key _) (by simp [acctFootprint])
  · apply (frame_saveKeyValue env c ctx _ (r _ _)).elim h a (.key _)
    simp only [skvFootprint]; rintro ⟨_, _, hal⟩
    simp [isAllowedToSaveUnderKey, protectedPrefix, nonceKeyPrefix, ascii] at hal; omega
  · exact (frame_esdtPause true env c ctx _ (r _ _)).elim h a (.key _) (tf _)
  · exact (frame_esdtPause false env c ctx _ (r _ _)).elim h a (.key _) (tf _)
  · exact (frame_esdtTransfer env c ctx _ (r _ _)).elim h a (.key _) (tf _)
  · exact (frame_esdtBurn env c ctx _ (r _ _)).elim h a (.key _) (tf _)
  · exact (frame_esdtFreezeWipe .freeze env c ctx _ (r _ _)).elim h a (.key _) (tf _)
  · exact (frame_esdtFreezeWipe .unfreeze env c ctx _ (r _ _)).elim h a (.key _) (tf _)
  · exact (frame_esdtFreezeWipe .wipe env c ctx _ (r _ _)).elim h a (.key _) (tf _)
  · exact (frame_esdtRoles false env c ctx _ (r _ _)).elim h a (.key _) (tf _)
  · exact (frame_esdtRoles true env c ctx _ (r _ _)).elim h a (.key _) (tf _)
  · exact (frame_esdtLocalBurn env c ctx _ (r _ _)).elim h a (.key _) (tf _)
  · exact (frame_esdtLocalMint env c ctx _ (r _ _)).elim h a (.key _) (tf _)
  · exact (frame_esdtNFTAddQuantity env c ctx _ (r _ _)).elim h a (.key _) (tf _)
  · exact (frame_esdtNFTBurn env c ctx _ (r _ _)).elim h a (.key _) (tf _)
  · exact absurd rfl h1
  · exact (frame_esdtNFTTransfer env c ctx _ (r _ _)).elim h a (.key _) (tf _)
  · exact absurd rfl h2
  · exact (frame_esdtNFTUpdateAttributes env c ctx _ (r _ _)).elim h a (.key _) (tf _)
  · exact (frame_esdtNFTAddURI env c ctx _ (r _ _)).elim h a (.key _) (tf _)
  · exact (frame_multiTransfer env c ctx _ (r _ _)).elim h a (.key _) (tf _)

end Esdt
