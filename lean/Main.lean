/-
  Main.lean — driver: reads the ops of PROTOCOL.md from stdin, runs them through the model,
  prints one observation per op.
-/
import Model
import Model.Merge
import Model.MapSpec
open Esdt

def bytesToString (b : Bytes) : String := String.ofList (b.map fun x => Char.ofNat x.toNat)
def stringToBytes (s : String) : Bytes := s.toUTF8.toList

def hx (b : Bytes) : String := bytesToString (hexEncode b)

/-- parse a hex token (`-` = empty) -/
def unhx (s : String) : Option Bytes :=
  if s == "-" then some [] else hexDecode (stringToBytes s)

def unhxD (s : String) : Bytes := (unhx s).getD []

/-- list item: empty written `-` -/
def hxItem (b : Bytes) : String := if b.isEmpty then "-" else hx b

def joinWith (sep : String) (xs : List String) : String := sep.intercalate xs

def hxList (sep : String) (bs : List Bytes) : String := joinWith sep (bs.map hxItem)

def unhxList (sep : Char) (s : String) : List Bytes :=
  if s == "" then [] else (s.splitOn (String.singleton sep)).map unhxD

def intStr (i : Int) : String := toString i

def optInt (o : Option Int) : String := match o with | some i => intStr i | none => "n"

def parseInt (s : String) : Int :=
  if s.startsWith "-" then - (Int.ofNat ((s.drop 1).toNat!)) else Int.ofNat s.toNat!

def b01 (b : Bool) : String := if b then "1" else "0"

def errName : ErrKind → String
  | .InsufficientFunds => "InsufficientFunds" | .InvalidRcvAddr => "InvalidRcvAddr"
  | .NegativeValue => "NegativeValue" | .NotEnoughGas => "NotEnoughGas" | .InvalidArguments => "InvalidArguments"
  | .OperationNotPermitted => "OperationNotPermitted" | .InvalidAddressLength => "InvalidAddressLength"
  | .CallerIsNotTheDNSAddress => "CallerIsNotTheDNSAddress" | .UserNameChangeIsDisabled => "UserNameChangeIsDisabled"
  | .BuiltInFunctionCalledWithValue => "BuiltInFunctionCalledWithValue" | .AccountNotPayable => "AccountNotPayable"
  | .NilUserAccount => "NilUserAccount" | .NilSCDestAccount => "NilSCDestAccount"
  | .AddressIsNotESDTSystemSC => "AddressIsNotESDTSystemSC" | .OnlySystemAccountAccepted => "OnlySystemAccountAccepted"
  | .ESDTTokenIsPaused => "ESDTTokenIsPaused" | .ESDTIsFrozenForAccount => "ESDTIsFrozenForAccount"
  | .CannotWipeAccountNotFrozen => "CannotWipeAccountNotFrozen" | .ActionNotAllowed => "ActionNotAllowed"
  | .OnlyFungibleTokensHaveBalanceTransfer => "OnlyFungibleTokensHaveBalanceTransfer"
  | .NFTTokenDoesNotExist => "NFTTokenDoesNotExist" | .NFTDoesNotHaveMetadata => "NFTDoesNotHaveMetadata"
  | .InvalidNFTQuantity => "InvalidNFTQuantity" | .WrongNFTOnDestination => "WrongNFTOnDestination"
  | .NewNFTDataOnSenderAddress => "NewNFTDataOnSenderAddress" | .Injected => "Injected" | .Other => "Other"

def perrName : ParseErr → String
  | .TokenizeFailed => "TokenizeFailed" | .InvalidDeployArguments => "InvalidDeployArguments"
  | .NilFunction => "NilFunction" | .InvalidDataString => "InvalidDataString" | .InvalidVMType => "InvalidVMType"
  | .InvalidCode => "InvalidCode" | .InvalidCodeMetadata => "InvalidCodeMetadata"
  | .NotESDTTransferInput => "NotESDTTransferInput" | .NotEnoughArguments => "NotEnoughArguments" | .Other => "Other"

/-! ### gas map parsing -/

def parseGasMap (s : String) : GasMap :=
  if s == "-" || s == "" then [] else
  (s.splitOn ",").filterMap fun kv =>
    match kv.splitOn "=" with
    | [k, v] => some (k, v.toNat!)
    | _ => none

/-! ### state diff / dump -/

def slotsOf (a : Bytes) (x : Acct) : List (String × String) :=
  let st := x.store.map fun (k, v) => ("k" ++ hx k, hx v)
  let extra :=
    (if x.owner.isEmpty then [] else [("owner", hx x.owner)]) ++
    (if x.name.isEmpty then [] else [("name", hx x.name)]) ++
    (if x.reward == 0 then [] else [("reward", intStr x.reward)]) ++
    (if x.balance == 0 then [] else [("balance", intStr x.balance)])
  (st ++ extra).map fun (s, v) => (hx a ++ "/" ++ s, v)

def dumpAccts (s : Accts) : List (String × String) :=
  let addrs := (s.map (·.1)).eraseDups
  addrs.flatMap fun a => slotsOf a (s.get a)

def lookupSlot (l : List (String × String)) (k : String) : String :=
  match l.find? (fun p => p.1 == k) with
  | some p => p.2
  | none => if k.endsWith "/reward" || k.endsWith "/balance" then "0" else ""

def diffAccts (pre post : Accts) : List String :=
  let a := dumpAccts pre
  let b := dumpAccts post
  let keys := ((a.map (·.1)) ++ (b.map (·.1))).eraseDups
  keys.filterMap fun k =>
    let o := lookupSlot a k
    let n := lookupSlot b k
    if o == n then none else some (k ++ "/" ++ n)

/-- The state change of one call, computed inside the footprint that `C05.bounded_footprint` proves the model stays within
    (accounts: caller, receiver, system account, address arguments; keys: the protocol keys of a token named in the
    arguments, or an argument itself for SaveKeyValue; plus the four account fields).  The full comparison `diffAccts` is
    quadratic in the size of the world; this one is linear.  A mistake here can only make the model's diff SMALLER than
    the implementation's full-world diff (computed by the harness without any such restriction), i.e. show up as a
    disagreement on the unchanged tree — never hide one. -/
def isPrefixOfB : Bytes → Bytes → Bool
  | [], _ => true
  | _ :: _, [] => false
  | x :: xs, y :: ys => x == y && isPrefixOfB xs ys

def candKey (args : List Bytes) (k : Bytes) : Bool :=
  args.any fun t =>
    k == t || isPrefixOfB (esdtKeyPrefix ++ t) k || k == roleKeyPrefix ++ t || k == nonceKeyPrefix ++ t

def diffCall (c : Call) (pre post : Accts) : List String :=
  let addrs := ([c.caller, c.rcv, systemAccountAddress] ++ c.args).eraseDups
  addrs.flatMap fun a =>
    let x := pre.get a
    let y := post.get a
    let restrict (z : Acct) : Acct := { z with store := z.store.filter fun p => candKey c.args p.1 }
    let sa := slotsOf a (restrict x)
    let sb := slotsOf a (restrict y)
    let keys := ((sa.map (·.1)) ++ (sb.map (·.1))).eraseDups
    keys.filterMap fun k =>
      let o := lookupSlot sa k
      let n := lookupSlot sb k
      if o == n then none else some (k ++ "/" ++ n)

/-! ### observation printing -/

def fmtLog (l : LogEntry) : String :=
  hx l.id ++ "/" ++ hx l.addr ++ "/" ++ hxList "." l.topics ++ "/" ++ hx l.data

def fmtXf (dest : Bytes) (t : OutTransfer) : String :=
  joinWith "/" [hx dest, intStr t.value, toString t.gasLimit, toString t.gasLocked, toString t.callType, hx t.sender, hx t.data]

def fmtOa (a : OutAcct) : String :=
  joinWith "/" [hx a.addr, optInt a.balance, optInt a.delta, "0", "0"]

def depsStr (d : List Dep) : String := String.ofList (d.map Dep.letter)

def fmtOk (out : VMOutput) (diff : List String) (deps : List Dep) (trace : Bool) : String :=
  let xfs := out.outAccts.flatMap fun a => a.transfers.map (fmtXf a.addr)
  joinWith " ; "
    (["R ok", "gas=" ++ toString out.gasRemaining, "rc=" ++ toString out.rc, "ret=" ++ hxList "," out.ret,
      "logs=" ++ joinWith "|" (out.logs.map fmtLog), "xf=" ++ joinWith "|" xfs,
      "oa=" ++ joinWith "|" (out.outAccts.map fmtOa), "diff=" ++ joinWith "|" diff] ++
     (if trace then ["deps=" ++ depsStr deps] else []))

/-! ### token / metadata text forms -/

def fmtMeta (m : MetaData) : String :=
  joinWith ":" [toString m.nonce, hx m.name, hx m.creator, toString m.royalties, hx m.hash, hx m.attributes,
                hxList "." m.uris]

def fmtToken (t : Token) : String :=
  joinWith "/" [toString t.type, optInt t.value, hx t.properties, hx t.reserved,
                match t.md with | some m => fmtMeta m | none => "n"]

def parseMeta (s : String) : Option MetaData :=
  match s.splitOn ":" with
  | [n, name, cr, roy, h, att, uris] =>
    some { nonce := n.toNat!, name := unhxD name, creator := unhxD cr, royalties := roy.toNat!, hash := unhxD h,
           attributes := unhxD att, uris := unhxList '.' uris }
  | _ => none

def parseToken (s : String) : Option Token :=
  match s.splitOn "/" with
  | [ty, v, p, r, m] =>
    some { type := ty.toNat!, value := if v == "n" then none else some (parseInt v), properties := unhxD p,
           reserved := unhxD r, md := if m == "n" then none else parseMeta m }
  | _ => none


/-! ### mergeseq (C20) -/

structure OAText where
  oa : OA
  bal : Option Int
  delta : Option Int

def parseOA (s : String) : Option OAText :=
  match s.splitOn ";" with
  | [a, n, b, d, st, code, cm, dep, tr, g] =>
    let storage := if st == "" then [] else (st.splitOn ",").filterMap fun it =>
      match it.splitOn ":" with
      | [k, o, dd] => some (unhxD k, (unhxD o, unhxD dd))
      | _ => none
    some { oa := { address := unhxD a, nonce := n.toNat!, storage := storage, code := unhxD code, codeMeta := unhxD cm,
                   deployer := if dep == "n" then none else some (unhxD dep),
                   transfers := if tr == "" then [] else (tr.splitOn ".").map parseInt, gasUsed := g.toNat! },
           bal := if b == "n" then none else some (parseInt b), delta := if d == "n" then none else some (parseInt d) }
  | _ => none

def allocOA (h : Heap) (t : OAText) : Heap × OA :=
  let (h, bp) := match t.bal with | some v => let (h', p) := h.alloc v; (h', some p) | none => (h, none)
  let (h, dp) := match t.delta with | some v => let (h', p) := h.alloc v; (h', some p) | none => (h, none)
  (h, { t.oa with balance := bp, delta := dp })

def sortStorage (s : List (Bytes × (Bytes × Bytes))) : List (Bytes × (Bytes × Bytes)) :=
  (s.toArray.qsort (fun a b => hx a.1 < hx b.1)).toList

def fmtOA (h : Heap) (o : OA) : String :=
  let st := (sortStorage (o.storage.foldl (fun acc p => if acc.any (fun q => q.1 == p.1) then acc else acc ++ [p]) [])).map
    fun (k, (of, d)) => hx k ++ ":" ++ hx of ++ ":" ++ hx d
  let dep := match o.deployer with | none => "n" | some d => if d.isEmpty then "-" else hx d
  joinWith ";" [hx o.address, toString o.nonce, optInt (o.balance.map h.get), optInt (o.delta.map h.get),
    joinWith "," st, hx o.code, hx o.codeMeta, dep, joinWith "." (o.transfers.map intStr), toString o.gasUsed]

/-- `mapseq <op> …`: the operations run one after the other on an empty map through `Lin.mapSpec` (keys and values are
    natural numbers): `g:k` `i:k:v` `s:k:v` `r:k` `l` `k`; one output per operation -/
def opMapSeq (toks : List String) : String :=
  let parse (t : String) : Option (Lin.MapOp Nat Nat) :=
    match t.splitOn ":" with
    | ["g", k] => k.toNat?.map .get
    | ["i", k, v] => match k.toNat?, v.toNat? with | some a, some b => some (.insert a b) | _, _ => none
    | ["s", k, v] => match k.toNat?, v.toNat? with | some a, some b => some (.set a b) | _, _ => none
    | ["r", k] => k.toNat?.map .remove
    | ["l"] => some .len
    | ["k"] => some .keys
    | _ => none
  let show_ (o : Lin.MapOut Nat Nat) : String :=
    match o with
    | .val none => "-"
    | .val (some v) => toString v
    | .ok b => if b then "1" else "0"
    | .unit => "."
    | .num n => toString n
    | .list l => "[" ++ "+".intercalate ((l.toArray.qsort (· < ·)).toList.map toString) ++ "]"
  let rec go (m : List (Nat × Nat)) (ts : List String) (acc : List String) : Option (List String) :=
    match ts with
    | [] => some acc.reverse
    | t :: rest =>
      match parse t with
      | none => none
      | some op => let r := (Lin.mapSpec (κ := Nat) (ν := Nat)).apply m op; go r.1 rest (show_ r.2 :: acc)
  match go [] toks [] with
  | some outs => "ok " ++ " ".intercalate outs
  | none => "badop"

def opMergeSeq (toks : List String) : String :=
  match toks.mapM parseOA with
  | none => "badop"
  | some [] => "badop"
  | some (t0 :: ts) =>
    let (h, o) := allocOA {} t0
    let (h, srcs) := ts.foldl (fun (acc : Heap × List OA) t => let (h', s) := allocOA acc.1 t; (h', acc.2 ++ [s])) (h, [])
    let before := srcs.map (fmtOA h)
    let (h', r) := mergeSeq h o srcs
    let after := srcs.map (fmtOA h')
    let bits := String.ofList ((before.zip after).map fun (a, b) => if a == b then '1' else '0')
    "ok " ++ fmtOA h' r ++ " u=" ++ bits

/-! ### ops -/

def allShards (w : World) (sel : String) : List Nat :=
  if sel == "*" then List.range w.nshards else [sel.toNat!]

def step (w : World) (line : String) : World × String :=
  let toks := (line.splitOn " ").filter (· != "")
  match toks with
  | [] => (w, "#")
  | cmd :: rest =>
  if cmd.startsWith "#" then (w, "#") else
  if cmd == "world" then
    match rest with
    | [n, nc, act, dns, gm] =>
      match createGasConfig (parseGasMap gm) with
      | none => ({}, "world err")
      | some g =>
        let nsh := n.toNat!
        -- a handler that is told an epoch at registration starts from that epoch; otherwise it has heard nothing yet
        let act0 := match w.regEpoch with | some e => epochConfirmed act.toNat! e | none => false
        let sh : ShardState := { accts := [], gas := g, active := act0 }
        ({ nshards := nsh, nameChange := nc == "1", activation := act.toNat!,
           dns := if dns == "-" then [] else (dns.splitOn ",").map unhxD,
           shards := List.replicate nsh sh, regEpoch := w.regEpoch }, "world ok")
    | _ => (w, "badop")
  else if cmd == "selfmeta" then
    match rest with
    | [s, onoff] =>
      if onoff != "on" && onoff != "off" then (w, "badop") else
      match s.toNat? with
      | some si =>
        (match w.shards[si]? with
         | some sh => ({ w with shards := w.shards.set si { sh with selfMeta := onoff == "on" } }, "selfmeta ok")
         | none => (w, "badop"))
      | none => (w, "badop")
    | _ => (w, "badop")
  else if cmd == "selfas" then
    match rest with
    | [s, idS] =>
      match s.toNat? with
      | some si =>
        (match w.shards[si]? with
         | some sh =>
           if idS == "own" then ({ w with shards := w.shards.set si { sh with selfAs := none } }, "selfas ok")
           else match idS.toNat? with
             | some i => if i < w.nshards then ({ w with shards := w.shards.set si { sh with selfAs := some i } }, "selfas ok") else (w, "badop")
             | none => (w, "badop")
         | none => (w, "badop"))
      | none => (w, "badop")
    | _ => (w, "badop")
  else if cmd == "aliasing" then
    -- harness-side storage discipline (accounts keep / hand out slices by reference); the model has values, not slices
    match rest with
    | [onoff] => if onoff == "on" || onoff == "off" then (w, "aliasing ok") else (w, "badop")
    | _ => (w, "badop")
  else if cmd == "notifier" then
    match rest with
    | ["off"] => ({ w with regEpoch := none }, "notifier ok")
    | [e] => (match e.toNat? with
        | some n => if n ≤ 4294967295 then ({ w with regEpoch := some n }, "notifier ok") else (w, "badop")
        | none => (w, "badop"))
    | _ => (w, "badop")
  else if w.nshards == 0 then (w, "noworld")
  else if cmd == "payable" then
    match rest with
    | [a, ans] =>
      let pa := if ans == "yes" then PayAns.yes else if ans == "no" then PayAns.no else PayAns.err
      ({ w with payable := (unhxD a, pa) :: w.payable }, "payable ok")
    | _ => (w, "badop")
  else if cmd == "raw" then
    match rest with
    | [s, a, k, v] =>
      let si := s.toNat!
      match w.shards[si]? with
      | none => (w, "badop")
      | some sh =>
        let addr := unhxD a
        let x := sh.accts.get addr
        let sh' := { sh with accts := sh.accts.set addr { x with store := x.store.put (unhxD k) (unhxD v) } }
        ({ w with shards := w.shards.set si sh' }, "raw ok")
    | _ => (w, "badop")
  else if cmd == "acct" then
    match rest with
    | [s, a, f, v] =>
      let si := s.toNat!
      match w.shards[si]? with
      | none => (w, "badop")
      | some sh =>
        let addr := unhxD a
        let x := sh.accts.get addr
        let x' := if f == "owner" then { x with owner := unhxD v }
          else if f == "name" then { x with name := unhxD v }
          else if f == "reward" then { x with reward := parseInt v }
          else { x with balance := parseInt v }
        ({ w with shards := w.shards.set si { sh with accts := sh.accts.set addr x' } }, "acct ok")
    | _ => (w, "badop")
  else if cmd == "epoch" then
    -- an optional third argument is the notification's timestamp: activation does not depend on it
    let confirm := fun (sel n : String) =>
      let e := n.toNat!
      let w' := (allShards w sel).foldl (fun w si =>
        match w.shards[si]? with
        | some sh => { w with shards := w.shards.set si { sh with active := epochConfirmed w.activation e } }
        | none => w) w
      (w', "epoch ok")
    match rest with
    | [sel, n] => confirm sel n
    | [sel, n, _ts] => confirm sel n
    | _ => (w, "badop")
  else if cmd == "gasmap" then
    match rest with
    | [sel, gm] =>
      let m := parseGasMap gm
      let w' := (allShards w sel).foldl (fun w si =>
        match w.shards[si]? with
        | some sh => { w with shards := w.shards.set si { sh with gas := gasScheduleChange sh.gas m } }
        | none => w) w
      (w', "gasmap ok")
    | _ => (w, "badop")
  else if cmd == "active" then
    match rest with
    | [s, fn] =>
      match w.shards[s.toNat!]?, FnId.ofName (stringToBytes fn) with
      | some sh, some f => (w, "active " ++ b01 (f.isActive (w.env s.toNat! sh)))
      | _, _ => (w, "active nofunc")
    | _ => (w, "badop")
  else if cmd == "registry" then
    let names := (FnId.all.map fun f => bytesToString f.name).toArray.qsort (· < ·) |>.toList
    -- `registry <shard> second`: the second container of a factory whose first container was modified by its holder is
    -- again the whole registry, every name bound to the implementing type
    match rest with
    | [_, "second"] => (w, "registry " ++ joinWith "," names ++ " bound=" ++ toString FnId.all.length)
    | _ => (w, "registry " ++ joinWith "," names)
  else if cmd == "fault" then
    match rest with
    | [k] => ({ w with failNext := some k.toNat! }, "fault ok")
    | _ => (w, "badop")
  else if cmd == "trace" then
    match rest with
    | [k] => ({ w with trace := k == "1" }, "trace ok")
    | _ => (w, "badop")
  else if cmd == "dump" then
    match rest with
    | [s] =>
      match w.shards[s.toNat!]? with
      | some sh => (w, "dump " ++ joinWith "|" ((dumpAccts sh.accts).map fun (k, v) => k ++ "/" ++ v))
      | none => (w, "badop")
    | _ => (w, "badop")
  else if cmd == "call" then
    match rest with
    | s :: fn :: caller :: rcv :: gas :: gasLocked :: ct :: rae :: cv :: args =>
      let si := s.toNat!
      let c : Call := { fn := stringToBytes fn, caller := unhxD caller, rcv := unhxD rcv, args := args.map unhxD,
                        callValue := parseInt cv, callType := ct.toNat!, gas := gas.toNat!, gasLocked := gasLocked.toNat!,
                        rae := rae == "1" }
      let pre := (w.shards[si]?).map (·.accts) |>.getD []
      let (w', st) := w.call si c
      match st with
      | .ok out deps =>
        let post := (w'.shards[si]?).map (·.accts) |>.getD []
        (w', fmtOk out (diffCall c pre post) deps w.trace)
      | .err e => (w', "R err:" ++ errName e)
      | .panic => (w', "R panic")
      | .nofunc => (w', "R nofunc")
      | .inactive => (w', "R inactive")
    | _ => (w, "badop")
  -- pure ops
  else if cmd == "parsecall" then
    match rest with
    | [d] =>
      match parseCall (unhxD d) with
      | .ok (fn, args) => (w, "ok " ++ hxItem fn ++ " " ++ hxList "," args)
      | .err e => (w, "err:" ++ perrName e)
      | .panic => (w, "panic")
    | _ => (w, "badop")
  else if cmd == "parsedeploy" then
    match rest with
    | [d] =>
      match parseDeploy (unhxD d) with
      | .ok r => (w, "ok " ++ hxItem r.code ++ " " ++ hxItem r.vmType ++ " " ++ b01 r.codeMeta.upgradeable ++ b01 r.codeMeta.payable ++
                   b01 r.codeMeta.readable ++ " " ++ hxList "," r.args)
      | .err e => (w, "err:" ++ perrName e)
      | .panic => (w, "panic")
    | _ => (w, "badop")
  else if cmd == "parsestorage" then
    match rest with
    | [d] =>
      match parseStorage (unhxD d) with
      | .ok ps => (w, "ok " ++ joinWith "," (ps.map fun (o, v) => hx o ++ ":" ++ hx v))
      | .err e => (w, "err:" ++ perrName e)
      | .panic => (w, "panic")
    | _ => (w, "badop")
  else if cmd == "buildstorage" then
    match rest with
    | [d] =>
      let ps := if d == "-" then [] else (d.splitOn ",").filterMap fun p =>
        match p.splitOn ":" with
        | [o, v] => some (unhxD o, unhxD v)
        | _ => none
      (w, "ok " ++ hxItem (buildStorage ps))
    | _ => (w, "badop")
  else if cmd == "parseesdt" then
    match rest with
    | snd :: rcv :: fn :: args =>
      match parseESDTTransfers (unhxD snd) (unhxD rcv) (unhxD fn) (args.map unhxD) with
      | .ok r =>
        let trs := r.transfers.map fun t => joinWith "/" [hxItem t.token, toString t.nonce, toString t.type, intStr t.value]
        (w, "ok " ++ hxItem r.rcv ++ " " ++ hxItem r.callFn ++ " " ++ hxList "," r.callArgs ++ " " ++ joinWith "|" trs)
      | .err e => (w, "err:" ++ perrName e)
      | .panic => (w, "panic")
    | _ => (w, "badop")
  else if cmd == "build" || cmd == "enccall" then
    match rest with
    | fn :: args => (w, "ok " ++ hxItem (encodeCall (unhxD fn) (args.map unhxD)))
    | _ => (w, "badop")
  else if cmd == "buildseq" then
    -- one builder object driven through a sequence of its methods (txDataBuilder/builder.go): the state is the function
    -- name and the element list; a read is `function ++ "@" ++ element ...` / the last element
    let stepB (st : Option (Bytes × List Bytes × List String)) (tok : String) : Option (Bytes × List Bytes × List String) :=
      match st with
      | none => none
      | some (fn, els, reads) =>
        let (kind, arg) := match tok.splitOn ":" with
          | [k] => (k, "")
          | k :: rest => (k, joinWith ":" rest)
          | [] => ("", "")
        if kind == "f" then some (unhxD arg, els, reads)
        else if kind == "b" || kind == "s" then some (fn, els ++ [hexEncode (unhxD arg)], reads)
        else if kind == "y" then (if (unhxD arg).length == 1 then some (fn, els ++ [hexEncode (unhxD arg)], reads) else none)
        else if kind == "i" then some (fn, els ++ [hexEncode (beBytes (parseInt arg).natAbs)], reads)
        else if kind == "t" then some (fn, els ++ [hexEncode (ascii "true")], reads)
        else if kind == "x" then some (fn, els ++ [hexEncode (ascii "false")], reads)
        else if kind == "c" then some ([], [], reads)
        else if kind == "l" then
          (match els.reverse with
           | [] => some (fn, [unhxD arg], reads)
           | _ :: r => some (fn, (unhxD arg :: r).reverse, reads))
        else if kind == "r" then some (fn, els, reads ++ [hxItem (fn ++ (els.flatMap fun e => (64 : UInt8) :: e))])
        else if kind == "g" then some (fn, els, reads ++ [hxItem (els.getLast?.getD [])])
        else none
    match rest.foldl stepB (some ([], [], [])) with
    | some (_, _, reads) => (w, if reads.isEmpty then "ok" else "ok " ++ joinWith "," reads)
    | none => (w, "badop")
  else if cmd == "enctoken" then
    match rest with
    | [t] =>
      match parseToken t with
      | some tok => let b := encToken tok; (w, "ok " ++ hxItem b ++ " " ++ toString b.length)
      | none => (w, "badop")
    | _ => (w, "badop")
  else if cmd == "decaddenc" then
    match rest with
    | [b, d] =>
      match decToken (unhxD b) with
      | some t => (w, "ok " ++ hxItem (encToken { t with value := t.value.map (· + parseInt d) }))
      | none => (w, "err")
    | _ => (w, "badop")
  else if cmd == "dectoken" then
    match rest with
    | [b] =>
      match decToken (unhxD b) with
      | some t => (w, "ok " ++ fmtToken t)
      | none => (w, "err")
    | _ => (w, "badop")
  else if cmd == "encroles" then
    let rs := match rest with | [r] => unhxList ',' r | _ => []
    let b := encRoles rs
    (w, "ok " ++ hxItem b ++ " " ++ toString b.length)
  else if cmd == "decroles" then
    match rest with
    | [b] =>
      match decRoles (unhxD b) with
      | some rs => (w, "ok " ++ hxList "," rs)
      | none => (w, "err")
    | _ => (w, "badop")
  else if cmd == "encmeta" then
    match rest with
    | [m] =>
      match parseMeta m with
      | some md => let b := encMeta md; (w, "ok " ++ hxItem b ++ " " ++ toString b.length)
      | none => (w, "badop")
    | _ => (w, "badop")
  else if cmd == "decmeta" then
    match rest with
    | [b] =>
      match decMeta (unhxD b) with
      | some m => (w, "ok " ++ fmtMeta m)
      | none => (w, "err")
    | _ => (w, "badop")
  else if cmd == "bigenc" then
    match rest with
    | [v] =>
      let o := if v == "n" then none else some (parseInt v)
      (w, "ok " ++ hxItem (encBigInt o) ++ " " ++ toString (sizeBigInt o))
    | _ => (w, "badop")
  else if cmd == "bigdec" then
    match rest with
    | [b] =>
      match decBigInt (unhxD b) with
      | some o => (w, "ok " ++ optInt o)
      | none => (w, "err")
    | _ => (w, "badop")
  else if cmd == "codemeta" then
    match rest with
    | [b] =>
      let m := codeMetadataFromBytes (unhxD b)
      (w, "ok " ++ b01 m.upgradeable ++ b01 m.payable ++ b01 m.readable ++ " " ++ hx m.toBytes)
    | _ => (w, "badop")
  else if cmd == "usermeta" then
    match rest with
    | [b] => let f := frozenOf (unhxD b); (w, "ok " ++ b01 f ++ " " ++ hx (flagBytes f))
    | _ => (w, "badop")
  else if cmd == "globalmeta" then
    match rest with
    | [b] => let f := pausedOf (unhxD b); (w, "ok " ++ b01 f ++ " " ++ hx (flagBytes f))
    | _ => (w, "badop")
  else if cmd == "addr" then
    match rest with
    | [b] =>
      let a := unhxD b
      let id : Bytes := match a.getLast? with | some l => [l] | none => []
      (w, "ok sc=" ++ b01 (isSmartContractAddress a) ++ " empty=" ++ b01 (isEmptyAddress a) ++ " sys=" ++
          b01 (isSystemAccountAddress a) ++ " metaid=" ++ b01 (isMetachainIdentifier a) ++ " scmeta=" ++
          b01 (isSmartContractOnMetachain id a) ++ " allowed=" ++ b01 (isAllowedToSaveUnderKey a))
    | _ => (w, "badop")
  else if cmd == "safesub" then
    match rest with
    | [a, b] =>
      match safeSubUint64 a.toNat! b.toNat! with
      | some r => (w, "ok " ++ toString r)
      | none => (w, "err")
    | _ => (w, "badop")
  else if cmd == "mapseq" then (w, opMapSeq rest)
  else if cmd == "mergeseq" then (w, opMergeSeq rest)
  else (w, "badop")

/-- `hint err` (inserted by the comparator in tolerant mode): the implementation rejected the next
    call; if the model accepts it, the model's effect is discarded so both continue from equal states. -/
partial def loop (h : IO.FS.Stream) (out : IO.FS.Stream) (w : World) (hint : Bool) : IO Unit := do
  let line ← h.getLine
  if line.isEmpty then return ()
  let l := String.ofList (line.toList.filter fun c => c != '\n' && c != '\r')
  if l.startsWith "hint" then
    out.putStrLn "#"
    loop h out w true
  else
    let (w', obs) := step w l
    out.putStrLn obs
    if hint && l.startsWith "call" && obs.startsWith "R ok" then
      loop h out { w with failNext := none } false
    else
      loop h out w' false

def main : IO Unit := do
  let stdin ← IO.getStdin
  let stdout ← IO.getStdout
  loop stdin stdout {} false
