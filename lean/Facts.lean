import Facts.Types
import Facts.Generated
