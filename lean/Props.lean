import Props.C06
import Props.C10
import Props.C12
import Props.C14
import Props.C16
import Props.C17
import Props.C18
import Props.C20
