/-
  Model/Basic.lean — byte strings, hex, big-endian integers, 64/32-bit truncation.
  Core-only (no Mathlib): this file is linked into the driver executable.
-/
namespace Esdt

abbrev Bytes := List UInt8

/-- Go `uint64(x)` / wrap-around of unsigned 64-bit arithmetic. -/
def u64 (n : Nat) : Nat := n % 18446744073709551616
/-- Go `uint32(x)`. -/
def u32 (n : Nat) : Nat := n % 4294967296

def two64 : Nat := 18446744073709551616
def two63 : Nat := 9223372036854775808
def two32 : Nat := 4294967296
def two31 : Nat := 2147483648

/-- little-endian minimal byte representation (`0 ↦ []`) -/
def leBytes (n : Nat) : Bytes :=
  if h : n = 0 then [] else UInt8.ofNat (n % 256) :: leBytes (n / 256)
termination_by n
decreasing_by omega

/-- `big.Int.Bytes()` of a non-negative integer: big-endian, minimal, `0 ↦ []`. -/
def beBytes (n : Nat) : Bytes := (leBytes n).reverse

/-- `big.Int.SetBytes`: big-endian bytes to natural number (leading zeros accepted). -/
def beNat (b : Bytes) : Nat := b.foldl (fun acc x => acc * 256 + x.toNat) 0

/-! ### hex (encoding/hex): lower-case output, both cases accepted, odd length rejected -/

def hexDigit (n : Nat) : UInt8 :=
  if n < 10 then UInt8.ofNat (48 + n) else UInt8.ofNat (87 + n)

def hexEncode : Bytes → Bytes
  | [] => []
  | b :: rest => hexDigit (b.toNat / 16) :: hexDigit (b.toNat % 16) :: hexEncode rest

def hexVal (c : UInt8) : Option Nat :=
  let n := c.toNat
  if 48 ≤ n ∧ n ≤ 57 then some (n - 48)
  else if 97 ≤ n ∧ n ≤ 102 then some (n - 87)
  else if 65 ≤ n ∧ n ≤ 70 then some (n - 55)
  else none

def hexDecode : Bytes → Option Bytes
  | [] => some []
  | [_] => none
  | a :: b :: rest =>
    match hexVal a, hexVal b with
    | some x, some y =>
      match hexDecode rest with
      | some r => some (UInt8.ofNat (x * 16 + y) :: r)
      | none => none
    | _, _ => none

/-- ASCII string literal to bytes (used for constants). -/
def ascii (s : String) : Bytes := s.toList.map (fun c => UInt8.ofNat c.toNat)

def at' : UInt8 := 64   -- '@'

/-- `strings.Split(data, "@")`: always returns at least one token. -/
def splitAt : Bytes → List Bytes
  | [] => [[]]
  | c :: rest =>
    if c = at' then [] :: splitAt rest
    else match splitAt rest with
      | [] => [[c]]          -- unreachable: splitAt never returns []
      | t :: ts => (c :: t) :: ts

/-- `fn + "@" + hex(arg) + "@" + ...` — the message encoder used by builder and built-ins. -/
def encodeCall (fn : Bytes) (args : List Bytes) : Bytes :=
  fn ++ (args.flatMap fun a => at' :: hexEncode a)

def allZero (b : Bytes) : Bool := b.all (· == 0)

end Esdt
