/-
  Model/Codec.lean — model of data/bigIntCaster.go and of the generated protobuf code in
  data/esdt/esdt.pb.go (Marshal / Size / Unmarshal / skipEsdt) as used through the production
  marshalizer (`Reset()` then `Unmarshal`).
-/
import Model.Basic
namespace Esdt

structure MetaData where
  nonce : Nat := 0          -- uint64
  name : Bytes := []
  creator : Bytes := []
  royalties : Nat := 0      -- uint32
  hash : Bytes := []
  uris : List Bytes := []
  attributes : Bytes := []
deriving DecidableEq, Repr, Inhabited

structure Token where
  type : Nat := 0           -- uint32
  value : Option Int := none  -- *big.Int, nil encodable
  properties : Bytes := []
  md : Option MetaData := none
  reserved : Bytes := []
deriving DecidableEq, Repr, Inhabited

/-! ### BigIntCaster -/

/-- `BigIntCaster.MarshalTo` into a buffer of `Size` bytes. -/
def encBigInt : Option Int → Bytes
  | none => [0]
  | some v =>
    if v = 0 then [0, 0]
    else (if v < 0 then (1 : UInt8) else 0) :: beBytes v.natAbs

/-- `BigIntCaster.Size`. -/
def sizeBigInt : Option Int → Nat
  | none => 1
  | some v => if v = 0 then 2 else (beBytes v.natAbs).length + 1

/-- `BigIntCaster.Unmarshal`: `none` = error, `some none` = nil. -/
def decBigInt : Bytes → Option (Option Int)
  | [] => none
  | [_] => some none
  | [s, b] =>
    if b = 0 then some (some 0)
    else if s = 0 then some (some (Int.ofNat b.toNat))
    else if s = 1 then some (some (- Int.ofNat b.toNat))
    else none
  | s :: rest =>
    if s = 0 then some (some (Int.ofNat (beNat rest)))
    else if s = 1 then some (some (- Int.ofNat (beNat rest)))
    else none

/-! ### varints -/

/-- `encodeVarintEsdt` / `sovEsdt` for a value `< 2^64`. -/
def encVarint (n : Nat) : Bytes :=
  if h : n < 128 then [UInt8.ofNat n] else UInt8.ofNat (n % 128 + 128) :: encVarint (n / 128)
termination_by n
decreasing_by omega

/-- The varint loop of the generated code: at most 10 bytes (`shift < 64`), value accumulated in a
    64-bit word (high bits of the 10th byte dropped). `none` = error (overflow / unexpected EOF). -/
def decVarintAux (shift acc : Nat) : Bytes → Option (Nat × Bytes)
  | [] => none
  | b :: rest =>
    if shift ≥ 64 then none else
    let acc' := (acc + (b.toNat % 128) * 2 ^ shift) % two64
    if b.toNat < 128 then some (acc', rest) else decVarintAux (shift + 7) acc' rest

def decVarint (bs : Bytes) : Option (Nat × Bytes) := decVarintAux 0 0 bs

/-- length-delimited payload: varint length read into a Go `int` (negative ⇒ error), bounds checked. -/
def decLenDelim (bs : Bytes) : Option (Bytes × Bytes) :=
  match decVarint bs with
  | none => none
  | some (n, rest) =>
    if n ≥ two63 then none
    else if n > rest.length then none
    else some (rest.take n, rest.drop n)

def encLenDelim (tag : UInt8) (b : Bytes) : Bytes := tag :: (encVarint b.length ++ b)

def encBytesField (tag : UInt8) (b : Bytes) : Bytes :=
  if b = [] then [] else encLenDelim tag b

def encVarintField (tag : UInt8) (n : Nat) : Bytes :=
  if n = 0 then [] else tag :: encVarint n

/-! ### encoders (field order of the stable marshaller) -/

def encMeta (m : MetaData) : Bytes :=
  encVarintField 0x08 m.nonce ++
  encBytesField 0x12 m.name ++
  encBytesField 0x1a m.creator ++
  encVarintField 0x20 m.royalties ++
  encBytesField 0x2a m.hash ++
  (m.uris.flatMap fun u => encLenDelim 0x32 u) ++
  encBytesField 0x3a m.attributes

def encToken (t : Token) : Bytes :=
  encVarintField 0x08 t.type ++
  encLenDelim 0x12 (encBigInt t.value) ++
  encBytesField 0x1a t.properties ++
  (match t.md with
   | none => []
   | some m => encLenDelim 0x22 (encMeta m)) ++
  encBytesField 0x2a t.reserved

def encRoles (rs : List Bytes) : Bytes := rs.flatMap fun r => encLenDelim 0x0a r

/-! ### skipEsdt -/

/-- skip the payload of one field of wire type `wt` (not a group); `none` = error. -/
def skipPayload (wt : Nat) (bs : Bytes) : Option Bytes :=
  match wt with
  | 0 => (decVarint bs).map (·.2)
  | 1 => if bs.length < 8 then none else some (bs.drop 8)
  | 2 => (decLenDelim bs).map (·.2)
  | 5 => if bs.length < 4 then none else some (bs.drop 4)
  | _ => none

/-- Body of `skipEsdt` after a start-group tag: read tags until the matching end-group.
    `fuel` bounds the number of tags (each consumes at least one byte). -/
def skipGroup : Nat → Nat → Bytes → Option Bytes
  | 0, _, _ => none
  | fuel + 1, depth, bs =>
    match decVarint bs with
    | none => none
    | some (wire, rest) =>
      let wt := wire % 8
      if wt = 3 then skipGroup fuel (depth + 1) rest
      else if wt = 4 then
        (if depth = 0 then none            -- unreachable from skipField (depth ≥ 1)
         else if depth = 1 then some rest
         else skipGroup fuel (depth - 1) rest)
      else
        match skipPayload wt rest with
        | none => none
        | some rest' => skipGroup fuel depth rest'

/-- Skip one unknown field whose tag has already been read (`wt` = its wire type). -/
def skipField (wt : Nat) (bs : Bytes) : Option Bytes :=
  if wt = 3 then skipGroup (bs.length + 1) 1 bs
  else if wt = 4 then none
  else skipPayload wt bs

/-- `fieldNum := int32(wire >> 3)`; `≤ 0` is an error. -/
def fieldNum (wire : Nat) : Option Nat :=
  let f := (wire / 8) % two32
  if f = 0 ∨ f ≥ two31 then none else some f

/-! ### decoders (generated `Unmarshal` loops) -/

/-- The outer `for iNdEx < l` loop of a generated `Unmarshal`: `step` consumes one field.
    Every step consumes at least one byte, so `fuel = length + 1` always suffices. -/
def decLoop {σ : Type} (step : Bytes → σ → Option (Bytes × σ)) : Nat → Bytes → σ → Option σ
  | 0, _, _ => none
  | fuel + 1, bs, s =>
    if bs = [] then some s else
    match step bs s with
    | none => none
    | some (rest, s') => decLoop step fuel rest s'

/-- tag of the next field: (field number, wire type, rest) -/
def decTag (bs : Bytes) : Option (Nat × Nat × Bytes) :=
  match decVarint bs with
  | none => none
  | some (wire, rest) =>
    let wt := wire % 8
    if wt = 4 then none else
    match fieldNum wire with
    | none => none
    | some f => some (f, wt, rest)

/-- one field of `MetaData.Unmarshal` -/
def decMetaStep (bs : Bytes) (m : MetaData) : Option (Bytes × MetaData) :=
  match decTag bs with
  | none => none
  | some (f, wt, rest) =>
    if f = 1 then
      (if wt ≠ 0 then none else
       match decVarint rest with
       | none => none
       | some (v, rest') => some (rest', { m with nonce := v }))
    else if f = 4 then
      (if wt ≠ 0 then none else
       match decVarint rest with
       | none => none
       | some (v, rest') => some (rest', { m with royalties := v % two32 }))
    else if f = 2 ∨ f = 3 ∨ f = 5 ∨ f = 6 ∨ f = 7 then
      (if wt ≠ 2 then none else
       match decLenDelim rest with
       | none => none
       | some (b, rest') =>
         some (rest',
           if f = 2 then { m with name := b }
           else if f = 3 then { m with creator := b }
           else if f = 5 then { m with hash := b }
           else if f = 6 then { m with uris := m.uris ++ [b] }
           else { m with attributes := b }))
    else
      match skipField wt rest with
      | none => none
      | some rest' => some (rest', m)

/-- `MetaData.Unmarshal` merging into `m0`. -/
def decMetaInto (bs : Bytes) (m0 : MetaData) : Option MetaData := decLoop decMetaStep (bs.length + 1) bs m0

def decMeta (bs : Bytes) : Option MetaData := decMetaInto bs {}

/-- one field of `ESDigitalToken.Unmarshal` -/
def decTokenStep (bs : Bytes) (t : Token) : Option (Bytes × Token) :=
  match decTag bs with
  | none => none
  | some (f, wt, rest) =>
    if f = 1 then
      (if wt ≠ 0 then none else
       match decVarint rest with
       | none => none
       | some (v, rest') => some (rest', { t with type := v % two32 }))
    else if f = 2 then
      (if wt ≠ 2 then none else
       match decLenDelim rest with
       | none => none
       | some (b, rest') =>
         match decBigInt b with
         | none => none
         | some v => some (rest', { t with value := v }))
    else if f = 3 then
      (if wt ≠ 2 then none else
       match decLenDelim rest with
       | none => none
       | some (b, rest') => some (rest', { t with properties := b }))
    else if f = 4 then
      (if wt ≠ 2 then none else
       match decLenDelim rest with
       | none => none
       | some (b, rest') =>
         match decMetaInto b (t.md.getD {}) with
         | none => none
         | some m => some (rest', { t with md := some m }))
    else if f = 5 then
      (if wt ≠ 2 then none else
       match decLenDelim rest with
       | none => none
       | some (b, rest') => some (rest', { t with reserved := b }))
    else
      match skipField wt rest with
      | none => none
      | some rest' => some (rest', t)

/-- production `Unmarshal` of a token: `Reset()` then generated `Unmarshal`. -/
def decToken (bs : Bytes) : Option Token := decLoop decTokenStep (bs.length + 1) bs {}

/-- one field of `ESDTRoles.Unmarshal` -/
def decRolesStep (bs : Bytes) (acc : List Bytes) : Option (Bytes × List Bytes) :=
  match decTag bs with
  | none => none
  | some (f, wt, rest) =>
    if f = 1 then
      (if wt ≠ 2 then none else
       match decLenDelim rest with
       | none => none
       | some (b, rest') => some (rest', acc ++ [b]))
    else
      match skipField wt rest with
      | none => none
      | some rest' => some (rest', acc)

def decRoles (bs : Bytes) : Option (List Bytes) := decLoop decRolesStep (bs.length + 1) bs []

end Esdt
