/-
  Model/Merge.lean — output.go: MergeOutputAccounts / MergeStorageUpdates over a small pointer heap
  for the `*big.Int` cells (Balance, BalanceDelta), so that aliasing and in-place mutation are visible.
-/
import Model.Basic
namespace Esdt


/-- heap of `big.Int` cells; `next` is the next fresh address -/
structure Heap where
  cells : List (Nat × Int) := []
  next : Nat := 0
deriving Repr

def Heap.get (h : Heap) (p : Nat) : Int :=
  match h.cells.find? (fun c => c.1 == p) with
  | some c => c.2
  | none => 0

def Heap.set (h : Heap) (p : Nat) (v : Int) : Heap := { h with cells := (p, v) :: h.cells }

def Heap.alloc (h : Heap) (v : Int) : Heap × Nat :=
  ({ cells := (h.next, v) :: h.cells, next := h.next + 1 }, h.next)

structure OA where
  address : Bytes := []
  nonce : Nat := 0
  balance : Option Nat := none
  delta : Option Nat := none
  storage : List (Bytes × (Bytes × Bytes)) := []     -- key ↦ (offset, data)
  code : Bytes := []
  codeMeta : Bytes := []
  deployer : Option Bytes := none
  transfers : List Int := []
  gasUsed : Nat := 0
deriving Repr

def storageLookup (s : List (Bytes × (Bytes × Bytes))) (k : Bytes) : Option (Bytes × Bytes) :=
  match s.find? (fun p => p.1 == k) with
  | some p => some p.2
  | none => none

/-- `MergeStorageUpdates`: entries of `src` override / extend those of `o` -/
def mergeStorage (o src : List (Bytes × (Bytes × Bytes))) : List (Bytes × (Bytes × Bytes)) :=
  src ++ o.filter (fun p => (storageLookup src p.1).isNone)

/-- `MergeOutputAccounts` -/
def mergeOA (h : Heap) (o src : OA) : Heap × OA :=
  let address := if src.address.length ≠ 0 then src.address else o.address
  let storage := mergeStorage o.storage src.storage
  let balance := match src.balance with | some p => some p | none => o.balance
  let (h, od) := match o.delta with
    | some p => (h, p)
    | none => h.alloc 0
  let h := match src.delta with
    | some q => h.set od (h.get od + h.get q)
    | none => h
  let code := if src.code.length > 0 then src.code else o.code
  let codeMeta := if src.codeMeta.length > 0 then src.codeMeta else o.codeMeta
  let nonce := if src.nonce > o.nonce then src.nonce else o.nonce
  let transfers := if src.transfers.length > o.transfers.length
    then o.transfers ++ src.transfers.drop o.transfers.length else o.transfers
  let deployer := match src.deployer with | some d => some d | none => o.deployer
  (h, { address := address, nonce := nonce, balance := balance, delta := some od, storage := storage, code := code,
        codeMeta := codeMeta, deployer := deployer, transfers := transfers, gasUsed := src.gasUsed })

def mergeSeq (h : Heap) (o : OA) : List OA → Heap × OA
  | [] => (h, o)
  | s :: rest => let (h', o') := mergeOA h o s; mergeSeq h' o' rest

end Esdt
