/-
  Model/World.lean — factory-level state: gas-schedule decoding (factory.go:createGasConfig,
  check/ifZero.go), schedule changes, epoch notifications (baseEnabled.go), the per-shard world
  of the harness (PROTOCOL.md) and one `call` step with node rollback.
-/
import Model.Fn
import Model.Parsers
namespace Esdt

abbrev GasMap := List (String × Nat)    -- "Table.Field" ↦ value; later entries win

def GasMap.lookup (m : GasMap) (k : String) : Nat :=
  match m.reverse.find? (fun p => p.1 == k) with
  | some p => p.2
  | none => 0

def baseFieldNames : List String :=
  ["StorePerByte", "ReleasePerByte", "DataCopyPerByte", "PersistPerByte", "CompilePerByte", "AoTPreparePerByte"]

def builtInFieldNames : List String :=
  ["ChangeOwnerAddress", "ClaimDeveloperRewards", "SaveUserName", "SaveKeyValue", "ESDTTransfer", "ESDTBurn",
   "ESDTLocalMint", "ESDTLocalBurn", "ESDTNFTCreate", "ESDTNFTAddQuantity", "ESDTNFTBurn", "ESDTNFTTransfer",
   "ESDTNFTChangeCreateOwner", "ESDTNFTMultiTransfer", "ESDTNFTAddURI", "ESDTNFTUpdateAttributes"]

def decodeBase (m : GasMap) : BaseCost :=
  let g := fun f => u64 (m.lookup ("BaseOperationCost." ++ f))
  { storePerByte := g "StorePerByte", releasePerByte := g "ReleasePerByte", dataCopyPerByte := g "DataCopyPerByte",
    persistPerByte := g "PersistPerByte", compilePerByte := g "CompilePerByte", aotPreparePerByte := g "AoTPreparePerByte" }

def decodeBuiltIn (m : GasMap) : BuiltInCost :=
  let g := fun f => u64 (m.lookup ("BuiltInCost." ++ f))
  { changeOwnerAddress := g "ChangeOwnerAddress", claimDeveloperRewards := g "ClaimDeveloperRewards",
    saveUserName := g "SaveUserName", saveKeyValue := g "SaveKeyValue", esdtTransfer := g "ESDTTransfer",
    esdtBurn := g "ESDTBurn", esdtLocalMint := g "ESDTLocalMint", esdtLocalBurn := g "ESDTLocalBurn",
    esdtNFTCreate := g "ESDTNFTCreate", esdtNFTAddQuantity := g "ESDTNFTAddQuantity", esdtNFTBurn := g "ESDTNFTBurn",
    esdtNFTTransfer := g "ESDTNFTTransfer", esdtNFTChangeCreateOwner := g "ESDTNFTChangeCreateOwner",
    esdtNFTMultiTransfer := g "ESDTNFTMultiTransfer", esdtNFTAddURI := g "ESDTNFTAddURI",
    esdtNFTUpdateAttributes := g "ESDTNFTUpdateAttributes" }

def BaseCost.fields (b : BaseCost) : List Nat :=
  [b.storePerByte, b.releasePerByte, b.dataCopyPerByte, b.persistPerByte, b.compilePerByte, b.aotPreparePerByte]

def BuiltInCost.fields (b : BuiltInCost) : List Nat :=
  [b.changeOwnerAddress, b.claimDeveloperRewards, b.saveUserName, b.saveKeyValue, b.esdtTransfer, b.esdtBurn,
   b.esdtLocalMint, b.esdtLocalBurn, b.esdtNFTCreate, b.esdtNFTAddQuantity, b.esdtNFTBurn, b.esdtNFTTransfer,
   b.esdtNFTChangeCreateOwner, b.esdtNFTMultiTransfer, b.esdtNFTAddURI, b.esdtNFTUpdateAttributes]

/-- `createGasConfig`: decode both tables, reject any zero (= missing) entry. -/
def createGasConfig (m : GasMap) : Option GasCost :=
  let b := decodeBase m
  let f := decodeBuiltIn m
  if b.fields.all (· ≠ 0) ∧ f.fields.all (· ≠ 0) then some { base := b, fn := f } else none

/-- `GasScheduleChange`: a rejected schedule leaves the previous one in force. -/
def gasScheduleChange (cur : GasCost) (m : GasMap) : GasCost :=
  match createGasConfig m with
  | some g => g
  | none => cur

/-- `baseEnabled.EpochConfirmed`: the flag after a notification. -/
def epochConfirmed (activation epoch : Nat) : Bool := epoch ≥ activation

structure ShardState where
  accts : Accts := []
  gas : GasCost := {}
  active : Bool := false
  /-- `selfmeta <shard> on`: this node is a metachain node (its coordinator's `SelfId` is the metachain id) -/
  selfMeta : Bool := false
  /-- `selfas <node> <id>`: this node has been reassigned to serve another shard (its coordinator's `SelfId` is `id`) -/
  selfAs : Option Nat := none
deriving Inhabited

structure World where
  nshards : Nat := 0
  nameChange : Bool := false
  activation : Nat := 0
  dns : List Bytes := []
  payable : List (Bytes × PayAns) := []
  shards : List ShardState := []
  failNext : Option Nat := none
  trace : Bool := false
  /-- `notifier <epoch>`: the notifiers of the worlds created afterwards confirm this epoch to every handler at registration -/
  regEpoch : Option Nat := none
deriving Inhabited

def World.payableFn (w : World) (a : Bytes) : PayAns :=
  match w.payable.find? (fun p => p.1 == a) with
  | some p => p.2
  | none => .yes

def World.env (w : World) (s : Nat) (sh : ShardState) : Env :=
  { self := if sh.selfMeta then metaShard else sh.selfAs.getD s, nshards := w.nshards, payable := w.payableFn, dns := w.dns, nameChange := w.nameChange,
    gas := sh.gas, active := sh.active }

inductive CallStatus
  | ok (out : VMOutput) (deps : List Dep)
  | err (e : ErrKind)
  | panic
  | nofunc
  | inactive

/-- one `call` op on shard `s`: dispatch, activity check, execution, rollback on failure -/
def World.call (w : World) (s : Nat) (c : Call) : World × CallStatus :=
  match w.shards[s]? with
  | none => (w, .nofunc)
  | some sh =>
    let w0 := { w with failNext := none }
    match FnId.ofName c.fn with
    | none => (w0, .nofunc)
    | some f =>
      let env := w.env s sh
      if !f.isActive env then (w0, .inactive) else
      match exec env f c { accts := sh.accts, failAt := w.failNext } with
      | .ok (out, ctx) =>
        ({ w0 with shards := w.shards.set s { sh with accts := ctx.accts } }, .ok out ctx.deps.reverse)
      | .err e => (w0, .err e)
      | .panic => (w0, .panic)

end Esdt
