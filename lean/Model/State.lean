/-
  Model/State.lean — storage, accounts, shard state, the execution monad with its primitives
  (every injected dependency of the Go code is one primitive), results, outputs.
-/
import Model.Codec
namespace Esdt

/-! ### storage -/

abbrev Store := List (Bytes × Bytes)

def Store.get : Store → Bytes → Bytes
  | [], _ => []
  | (k', v) :: rest, k => if k' = k then v else Store.get rest k

def Store.erase (s : Store) (k : Bytes) : Store := s.filter (fun p => p.1 ≠ k)

/-- `SaveKeyValue`: an empty value deletes. -/
def Store.put (s : Store) (k v : Bytes) : Store :=
  if v = [] then s.erase k else (k, v) :: s.erase k

structure Acct where
  store : Store := []
  balance : Int := 0
  reward : Int := 0
  owner : Bytes := []
  name : Bytes := []
deriving Repr, Inhabited

abbrev Accts := List (Bytes × Acct)

def Accts.get : Accts → Bytes → Acct
  | [], _ => {}
  | (a', x) :: rest, a => if a' = a then x else Accts.get rest a

def Accts.set (s : Accts) (a : Bytes) (x : Acct) : Accts :=
  (a, x) :: s.filter (fun p => p.1 ≠ a)

/-! ### results -/

inductive ErrKind
  | InsufficientFunds | InvalidRcvAddr | NegativeValue | NotEnoughGas | InvalidArguments
  | OperationNotPermitted | InvalidAddressLength | CallerIsNotTheDNSAddress
  | UserNameChangeIsDisabled | BuiltInFunctionCalledWithValue | AccountNotPayable
  | NilUserAccount | NilSCDestAccount | AddressIsNotESDTSystemSC | OnlySystemAccountAccepted
  | ESDTTokenIsPaused | ESDTIsFrozenForAccount | CannotWipeAccountNotFrozen | ActionNotAllowed
  | OnlyFungibleTokensHaveBalanceTransfer | NFTTokenDoesNotExist | NFTDoesNotHaveMetadata
  | InvalidNFTQuantity | WrongNFTOnDestination | NewNFTDataOnSenderAddress
  | Injected | Other
deriving DecidableEq, Repr, Inhabited

inductive Res (α : Type) where
  | ok (a : α)
  | err (e : ErrKind)
  | panic
deriving Repr

/-! ### dependency calls -/

inductive Dep | w | l | s | m | u | p | b | o | c
deriving DecidableEq, Repr

def Dep.letter : Dep → Char
  | .w => 'w' | .l => 'l' | .s => 's' | .m => 'm' | .u => 'u' | .p => 'p' | .b => 'b' | .o => 'o' | .c => 'c'

inductive PayAns | yes | no | err
deriving DecidableEq, Repr, Inhabited

/-- mutable context of one execution -/
structure Ctx where
  accts : Accts := []
  deps : List Dep := []          -- newest first
  failAt : Option Nat := none    -- index of the dependency call that fails
deriving Repr, Inhabited

abbrev M (α : Type) := Ctx → Res (α × Ctx)

@[inline] def M.pure {α} (a : α) : M α := fun c => .ok (a, c)
@[inline] def M.bind {α β} (m : M α) (f : α → M β) : M β := fun c =>
  match m c with
  | .ok (a, c') => f a c'
  | .err e => .err e
  | .panic => .panic

instance : Monad M where
  pure := M.pure
  bind := M.bind

def fail {α} (e : ErrKind) : M α := fun _ => .err e
def goPanic {α} : M α := fun _ => .panic

/-- one counted dependency call: fails when the fault plan says so -/
def tick (d : Dep) : M Unit := fun c =>
  if c.failAt = some c.deps.length then .err .Injected
  else .ok ((), { c with deps := d :: c.deps })

def guardE (cond : Bool) (e : ErrKind) : M Unit := if cond then fail e else pure ()

/-- storage read (`RetrieveValue`): never fails, not counted -/
def readKey (a k : Bytes) : M Bytes := fun c => .ok (((c.accts.get a).store.get k), c)

/-- data-trie write (`SaveKeyValue`) -/
def writeKey (a k v : Bytes) : M Unit := do
  tick .w
  fun c => let x := c.accts.get a
           .ok ((), { c with accts := c.accts.set a { x with store := x.store.put k v } })

def getAcct (a : Bytes) : M Acct := fun c => .ok (c.accts.get a, c)
def setAcct (a : Bytes) (x : Acct) : M Unit := fun c => .ok ((), { c with accts := c.accts.set a x })

/-- account-level field updates (`ChangeOwnerAddress`, `SetUserName`, `ClaimDeveloperRewards`, `AddToBalance`) -/
def setOwner (a v : Bytes) : M Unit := fun c =>
  .ok ((), { c with accts := c.accts.set a { c.accts.get a with owner := v } })
def setName (a v : Bytes) : M Unit := fun c =>
  .ok ((), { c with accts := c.accts.set a { c.accts.get a with name := v } })
def setReward (a : Bytes) (v : Int) : M Unit := fun c =>
  .ok ((), { c with accts := c.accts.set a { c.accts.get a with reward := v } })
def setBalance (a : Bytes) (v : Int) : M Unit := fun c =>
  .ok ((), { c with accts := c.accts.set a { c.accts.get a with balance := v } })

def loadAcct : M Unit := tick .l
def saveAcct : M Unit := tick .s

/-- nil-pointer dereference helper -/
def deref {α} : Option α → M α
  | some a => pure a
  | none => goPanic

/-- `args[i]` with Go's bounds check -/
def argAt (args : List Bytes) (i : Nat) : M Bytes := deref args[i]?

/-- `Marshal` of a token / role list.  A Go slice is shorter than 2^63 bytes: an encoding that would not fit does not exist
    (the call cannot return it); the model makes that physical limit an explicit error branch — it is never taken on any
    input the implementation can be given, and it is what lets "whatever was stored can be read back" be a theorem. -/
def marshalToken (t : Token) : M Bytes := do
  tick .m
  if (encToken t).length < two63 then pure (encToken t) else fail .Other
def marshalRoles (r : List Bytes) : M Bytes := do
  tick .m
  if (encRoles r).length < two63 then pure (encRoles r) else fail .Other

def unmarshalToken (b : Bytes) : M Token := do
  tick .u
  match decToken b with
  | some t => pure t
  | none => fail .Other

def unmarshalRoles (b : Bytes) : M (List Bytes) := do
  tick .u
  match decRoles b with
  | some t => pure t
  | none => fail .Other

/-! ### outputs -/

structure OutTransfer where
  value : Int := 0
  gasLimit : Nat := 0
  gasLocked : Nat := 0
  data : Bytes := []
  callType : Nat := 0
  sender : Bytes := []
deriving Repr, DecidableEq

structure OutAcct where
  addr : Bytes
  balance : Option Int := none
  delta : Option Int := none
  transfers : List OutTransfer := []
deriving Repr, DecidableEq

structure LogEntry where
  id : Bytes
  addr : Bytes := []
  topics : List Bytes := []
  data : Bytes := []
deriving Repr, DecidableEq

structure VMOutput where
  ret : List Bytes := []
  rc : Nat := 0
  gasRemaining : Nat := 0
  outAccts : List OutAcct := []
  logs : List LogEntry := []
deriving Repr, DecidableEq

/-! ### gas schedule -/

structure BaseCost where
  storePerByte : Nat := 0
  releasePerByte : Nat := 0
  dataCopyPerByte : Nat := 0
  persistPerByte : Nat := 0
  compilePerByte : Nat := 0
  aotPreparePerByte : Nat := 0
deriving Repr, DecidableEq, Inhabited

structure BuiltInCost where
  changeOwnerAddress : Nat := 0
  claimDeveloperRewards : Nat := 0
  saveUserName : Nat := 0
  saveKeyValue : Nat := 0
  esdtTransfer : Nat := 0
  esdtBurn : Nat := 0
  esdtLocalMint : Nat := 0
  esdtLocalBurn : Nat := 0
  esdtNFTCreate : Nat := 0
  esdtNFTAddQuantity : Nat := 0
  esdtNFTBurn : Nat := 0
  esdtNFTTransfer : Nat := 0
  esdtNFTChangeCreateOwner : Nat := 0
  esdtNFTMultiTransfer : Nat := 0
  esdtNFTAddURI : Nat := 0
  esdtNFTUpdateAttributes : Nat := 0
deriving Repr, DecidableEq, Inhabited

structure GasCost where
  base : BaseCost := {}
  fn : BuiltInCost := {}
deriving Repr, DecidableEq, Inhabited

/-! ### static environment of one execution -/

structure Env where
  self : Nat                      -- executing shard id
  nshards : Nat
  payable : Bytes → PayAns        -- payability oracle
  dns : List Bytes
  nameChange : Bool
  gas : GasCost                   -- schedule in force
  active : Bool                   -- ESDTNFTImprovementV1 flag

structure Call where
  fn : Bytes
  caller : Bytes
  rcv : Bytes
  args : List Bytes
  callValue : Int := 0
  callType : Nat := 0
  gas : Nat := 0
  gasLocked : Nat := 0
  rae : Bool := false
deriving Repr, DecidableEq

end Esdt
