/-
  Model/Parsers.lean — parsers/tokenize.go, callArgsParser.go, deployArgsParser.go,
  storageUpdatesParser.go, esdtTransferParser.go and txDataBuilder/builder.go (ToString).
  Strings are byte strings (Go strings are byte sequences).
-/
import Model.Helpers
namespace Esdt

inductive ParseErr
  | TokenizeFailed | InvalidDeployArguments | NilFunction | InvalidDataString | InvalidVMType
  | InvalidCode | InvalidCodeMetadata | NotESDTTransferInput | NotEnoughArguments | Other
deriving DecidableEq, Repr

inductive PRes (α : Type) where
  | ok (a : α)
  | err (e : ParseErr)
  | panic
deriving Repr

/-- `tokenize` -/
def tokenize (data : Bytes) : Option (List Bytes) :=
  match splitAt data with
  | [] => none
  | t :: ts => if t = [] then none else some (t :: ts)

def decodeAll : List Bytes → Option (List Bytes)
  | [] => some []
  | t :: ts =>
    match hexDecode t, decodeAll ts with
    | some b, some bs => some (b :: bs)
    | _, _ => none

/-- `callArgsParser.ParseData` -/
def parseCall (data : Bytes) : PRes (Bytes × List Bytes) :=
  match tokenize data with
  | none => .err .TokenizeFailed
  | some [] => .err .NilFunction          -- unreachable (tokenize never returns an empty list)
  | some (fn :: rest) =>
    match decodeAll rest with
    | some args => .ok (fn, args)
    | none => .err .TokenizeFailed

/-- the tx-data builder: `Func(fn)`, `Bytes(arg)`…, `ToString()` -/
def buildCall (fn : Bytes) (args : List Bytes) : Bytes := encodeCall fn args

structure DeployArgs where
  code : Bytes
  vmType : Bytes
  codeMeta : CodeMetadata
  args : List Bytes
deriving Repr, DecidableEq

/-- `deployArgsParser.ParseData` -/
def parseDeploy (data : Bytes) : PRes DeployArgs :=
  match tokenize data with
  | none => .err .TokenizeFailed
  | some (c :: v :: m :: rest) =>
    match hexDecode c with
    | none => .err .InvalidCode
    | some code =>
      if v = [] then .err .InvalidVMType else
      match hexDecode v with
      | none => .err .InvalidVMType
      | some vm =>
        match hexDecode m with
        | none => .err .InvalidCodeMetadata
        | some mb =>
          match decodeAll rest with
          | none => .err .TokenizeFailed
          | some args => .ok { code := code, vmType := vm, codeMeta := codeMetadataFromBytes mb, args := args }
  | some _ => .err .InvalidDeployArguments

/-- deploy data as the node builds it: `hex(code)@hex(vmType)@hex(meta)@hex(arg)…` -/
def buildDeploy (d : DeployArgs) : Bytes :=
  hexEncode d.code ++ [at'] ++ hexEncode d.vmType ++ [at'] ++ hexEncode d.codeMeta.toBytes ++
    (d.args.flatMap fun a => at' :: hexEncode a)

def pairsOf : List Bytes → Option (List (Bytes × Bytes))
  | [] => some []
  | [_] => none
  | a :: b :: rest =>
    match hexDecode a, hexDecode b, pairsOf rest with
    | some x, some y, some r => some ((x, y) :: r)
    | _, _, _ => none

/-- `storageUpdatesParser.GetStorageUpdates` -/
def parseStorage (data : Bytes) : PRes (List (Bytes × Bytes)) :=
  let data := match data with
    | c :: rest => if c = at' then rest else data
    | [] => data
  match tokenize data with
  | none => .err .TokenizeFailed
  | some toks =>
    if toks.length % 2 ≠ 0 then .err .InvalidDataString else
    match pairsOf toks with
    | some ps => .ok ps
    | none => .err .TokenizeFailed

/-- `CreateDataFromStorageUpdate` -/
def buildStorage : List (Bytes × Bytes) → Bytes
  | [] => []
  | [(o, d)] => hexEncode o ++ [at'] ++ hexEncode d
  | (o, d) :: rest => hexEncode o ++ [at'] ++ hexEncode d ++ [at'] ++ buildStorage rest

structure ParsedTransfer where
  value : Int
  token : Bytes
  type : Nat
  nonce : Nat
deriving Repr, DecidableEq

structure ParsedTransfers where
  transfers : List ParsedTransfer
  rcv : Bytes
  callFn : Bytes
  callArgs : List Bytes
deriving Repr, DecidableEq

def pArg (args : List Bytes) (i : Nat) : PRes Bytes :=
  match args[i]? with
  | some a => .ok a
  | none => .panic

def PRes.bind {α β} (r : PRes α) (f : α → PRes β) : PRes β :=
  match r with
  | .ok a => f a
  | .err e => .err e
  | .panic => .panic

instance : Monad PRes where
  pure := .ok
  bind := PRes.bind

/-- `createNewESDTTransfer` -/
def parseOneTransfer (atSender : Bool) (tok a1 a2 : Bytes) : PRes ParsedTransfer :=
  let nonce := u64 (beNat a1)
  if nonce > 0 then
    if !atSender then
      match decToken a2 with
      | none => .err .Other
      | some t =>
        match t.value with
        | none => .err .NotESDTTransferInput
        | some v => .ok { value := v, token := tok, type := 1, nonce := nonce }
    else .ok { value := beNat a2, token := tok, type := 1, nonce := nonce }
  else .ok { value := beNat a2, token := tok, type := 0, nonce := nonce }

/-- the loop over `numOfTransfer` triples -/
def parseMultiLoop (args : List Bytes) (atSender : Bool) : Nat → Nat → PRes (List ParsedTransfer)
  | 0, _ => .ok []
  | n + 1, idx => do
    let tok ← pArg args idx
    let a1 ← pArg args (idx + 1)
    let a2 ← pArg args (idx + 2)
    let tr ← parseOneTransfer atSender tok a1 a2
    let rest ← parseMultiLoop args atSender n (idx + 3)
    pure (tr :: rest)

/-- `esdtTransferParser.ParseESDTTransfers` -/
def parseESDTTransfers (snd rcv fn : Bytes) (args : List Bytes) : PRes ParsedTransfers :=
  if fn = ascii "ESDTTransfer" then
    if args.length < 2 then .err .NotEnoughArguments else do
      let a0 ← pArg args 0
      let a1 ← pArg args 1
      pure { transfers := [{ value := beNat a1, token := a0, type := 0, nonce := 0 }], rcv := rcv,
             callFn := (args[2]?).getD [], callArgs := args.drop 3 }
  else if fn = ascii "ESDTNFTTransfer" then
    if args.length < 4 then .err .NotEnoughArguments else do
      let a0 ← pArg args 0
      let a1 ← pArg args 1
      let a2 ← pArg args 2
      let a3 ← pArg args 3
      pure { transfers := [{ value := beNat a2, token := a0, type := 1, nonce := u64 (beNat a1) }],
             rcv := if snd = rcv then a3 else rcv,
             callFn := (args[4]?).getD [], callArgs := args.drop 5 }
  else if fn = ascii "MultiESDTNFTTransfer" then
    if args.length < 4 then .err .NotEnoughArguments else do
      let a0 ← pArg args 0
      let a1 ← pArg args 1
      let atSender := snd = rcv
      let num := if atSender then u64 (beNat a1) else u64 (beNat a0)
      let start := if atSender then 2 else 1
      if num > args.length / 3 then PRes.err .NotEnoughArguments else
      let minLen := u64 (u64 (3 * num) + start)
      if args.length < minLen then PRes.err .NotEnoughArguments else do
        let trs ← parseMultiLoop args atSender num start
        pure { transfers := trs, rcv := if atSender then a0 else rcv,
               callFn := (args[minLen]?).getD [], callArgs := args.drop (minLen + 1) }
  else .err .NotESDTTransferInput

end Esdt
