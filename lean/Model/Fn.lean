/-
  Model/Fn.lean — the 23 built-in functions of builtInFunctions/*.go, same helper
  decomposition and the same order of checks as the Go code (of the tree with the `fix:` commits).
-/
import Model.Helpers
namespace Esdt

open ErrKind

/-! ### shared helpers (esdtTransfer.go, esdtNFTCreate.go, esdtRoles.go, logsAndEvents.go) -/

def fungibleDefault : Token := { type := 0, value := some 0 }

/-- `checkBasicESDTArguments` -/
def checkBasic (c : Call) : M Unit := do
  guardE (c.callValue ≠ 0) BuiltInFunctionCalledWithValue
  guardE (c.args.length < 2) InvalidArguments

/-- `mustVerifyPayable` -/
def mustVerifyPayable (c : Call) (minLen : Nat) : Bool :=
  if c.callType = 2 ∨ c.callType = 3 then false
  else if c.caller = esdtSCAddress then false
  else if c.args.length > minLen then false
  else true

/-- `payableHandler.IsPayable` followed by the two standard reactions -/
def verifyPayable (env : Env) (a : Bytes) : M Unit := do
  tick .p
  match env.payable a with
  | .yes => pure ()
  | .no => fail AccountNotPayable
  | .err => fail Other

/-- the optional payability query -/
def verifyPayableIf (env : Env) (must : Bool) (a : Bytes) : M Unit :=
  if must then verifyPayable env a else pure ()

/-- `esdtPause.IsPaused` (fail-soft lookup through the shard's system account) -/
def isPaused (key : Bytes) : M Bool := do
  let v ← readKey systemAccountAddress key
  pure (v.length = 2 && pausedOf v)

/-- `checkFrozeAndPause` -/
def checkFrozeAndPause (addr key : Bytes) (t : Token) (rae : Bool) : M Unit := do
  if rae then pure ()
  else if addr = esdtSCAddress then pure ()
  else
    guardE (frozenOf t.properties) ESDTIsFrozenForAccount
    let p ← isPaused key
    guardE p ESDTTokenIsPaused

/-- `getESDTDataFromKey` -/
def getESDTDataFromKey (a key : Bytes) : M Token := do
  let raw ← readKey a key
  if raw = [] then pure fungibleDefault else unmarshalToken raw

/-- `saveESDTData` -/
def saveESDTData (a : Bytes) (t : Token) (key : Bytes) : M Unit := do
  let v ← deref t.value
  if v = 0 ∧ allZero t.properties then writeKey a key []
  else
    let b ← marshalToken t
    writeKey a key b

/-- `addToESDTBalance` -/
def addToESDTBalance (a key : Bytes) (delta : Int) (rae : Bool) : M Unit := do
  let t ← getESDTDataFromKey a key
  guardE (t.type ≠ 0) OnlyFungibleTokensHaveBalanceTransfer
  checkFrozeAndPause a key t rae
  let v ← deref t.value
  let v' := v + delta
  guardE (v' < 0) InsufficientFunds
  saveESDTData a { t with value := some v' } key

def nftKey (tokenKey : Bytes) (nonce : Nat) : Bytes := tokenKey ++ beBytes nonce

/-- `getESDTNFTTokenOnDestination`: token and `isNew` -/
def getNFTOnDestination (a tokenKey : Bytes) (nonce : Nat) : M (Token × Bool) := do
  let raw ← readKey a (nftKey tokenKey nonce)
  if raw = [] then pure (fungibleDefault, true)
  else
    let t ← unmarshalToken raw
    pure (t, false)

/-- `getESDTNFTTokenOnSender` -/
def getNFTOnSender (a tokenKey : Bytes) (nonce : Nat) : M Token := do
  let (t, isNew) ← getNFTOnDestination a tokenKey nonce
  guardE isNew NewNFTDataOnSenderAddress
  guardE (nonce > 0 ∧ t.md.isNone) NFTDoesNotHaveMetadata
  guardE (match t.md with | some m => decide (m.nonce ≠ 0 ∧ m.nonce ≠ nonce) | none => false) NFTTokenDoesNotExist
  pure t

/-- `saveESDTNFTToken`: returns the marshalled bytes (empty when deleted) -/
def saveNFT (a tokenKey : Bytes) (t : Token) (rae : Bool) : M Bytes := do
  checkFrozeAndPause a tokenKey t rae
  let nonce := match t.md with | some m => m.nonce | none => 0
  let k := nftKey tokenKey nonce
  checkFrozeAndPause a k t rae
  let v ← deref t.value
  if v ≤ 0 then
    writeKey a k []
    pure []
  else
    let b ← marshalToken t
    writeKey a k b
    pure b

/-- `getESDTRolesForAcnt`: roles and `isNew` -/
def getRoles (a roleKey : Bytes) : M (List Bytes × Bool) := do
  let raw ← readKey a roleKey
  if raw = [] then pure ([], true)
  else
    let r ← unmarshalRoles raw
    pure (r, false)

/-- `saveRolesToAccount` -/
def saveRoles (a roleKey : Bytes) (roles : List Bytes) : M Unit := do
  let b ← marshalRoles roles
  writeKey a roleKey b

/-- `esdtRoles.CheckAllowedToExecute` (account known to be present) -/
def checkAllowed (a tokenID role : Bytes) : M Unit := do
  let (roles, isNew) ← getRoles a (roleKeyPrefix ++ tokenID)
  guardE isNew ActionNotAllowed
  guardE (!roles.contains role) ActionNotAllowed

/-- the conditional second role check of ESDTNFTCreate -/
def checkAllowedIf (b : Bool) (a tokenID role : Bytes) : M Unit :=
  if b then checkAllowed a tokenID role else pure ()

/-- `deleteRoles`: remove the first occurrence of each listed role -/
def deleteRoles (roles : List Bytes) (del : List Bytes) : List Bytes :=
  del.foldl (fun rs d => rs.erase d) roles

def getLatestNonce (a tokenID : Bytes) : M Nat := do
  let raw ← readKey a (nonceKeyPrefix ++ tokenID)
  pure (if raw = [] then 0 else u64 (beNat raw))

def saveLatestNonce (a tokenID : Bytes) (n : Nat) : M Unit :=
  writeKey a (nonceKeyPrefix ++ tokenID) (beBytes n)

/-- `newEntryForNFT` (+ optional extra topic) -/
def nftLog (id caller tokenID : Bytes) (nonce : Nat) (extra : List Bytes) : LogEntry :=
  { id := id, addr := caller, topics := [tokenID, beBytes nonce] ++ extra }

/-- `newEntryForESDT` -/
def esdtLog (id tokenID : Bytes) (value : Nat) (addrs : List Bytes) : LogEntry :=
  { id := id, addr := addrs.headD [], topics := [tokenID, beBytes value] ++ (addrs.drop 1).take 1 }

/-- `addOutputTransferToVMOutput`: forwards all remaining gas -/
def addOutputTransfer (sender fn : Bytes) (args : List Bytes) (rcpt : Bytes) (gasLocked callType : Nat)
    (out : VMOutput) : VMOutput :=
  let tr : OutTransfer :=
    { value := 0, gasLimit := out.gasRemaining, gasLocked := gasLocked, data := encodeCall fn args,
      callType := callType, sender := sender }
  { out with outAccts := [{ addr := rcpt, transfers := [tr] }], gasRemaining := 0 }

/-- `addNFTTransferToVMOutput` -/
def addNFTTransfer (sender rcpt fn : Bytes) (args : List Bytes) (gasLocked gasLimit callType : Nat)
    (out : VMOutput) : VMOutput :=
  let tr : OutTransfer :=
    { value := 0, gasLimit := gasLimit, gasLocked := gasLocked, data := encodeCall fn args,
      callType := callType, sender := sender }
  { out with outAccts := [{ addr := rcpt, transfers := [tr] }] }

def fnESDTTransfer := ascii "ESDTTransfer"
def fnESDTBurn := ascii "ESDTBurn"
def fnESDTNFTTransfer := ascii "ESDTNFTTransfer"
def fnMultiESDTNFTTransfer := ascii "MultiESDTNFTTransfer"
def fnESDTNFTCreate := ascii "ESDTNFTCreate"
def fnESDTNFTAddQuantity := ascii "ESDTNFTAddQuantity"
def fnESDTNFTBurn := ascii "ESDTNFTBurn"
def fnESDTNFTAddURI := ascii "ESDTNFTAddURI"
def fnESDTNFTUpdateAttributes := ascii "ESDTNFTUpdateAttributes"
def fnESDTLocalMint := ascii "ESDTLocalMint"
def fnESDTLocalBurn := ascii "ESDTLocalBurn"
def fnESDTWipe := ascii "ESDTWipe"
def fnESDTFreeze := ascii "ESDTFreeze"
def fnESDTUnFreeze := ascii "ESDTUnFreeze"
def fnESDTPause := ascii "ESDTPause"
def fnESDTUnPause := ascii "ESDTUnPause"
def fnSetESDTRole := ascii "ESDTSetRole"
def fnUnSetESDTRole := ascii "ESDTUnSetRole"
def fnESDTNFTCreateRoleTransfer := ascii "ESDTNFTCreateRoleTransfer"
def fnSaveKeyValue := ascii "SaveKeyValue"
def fnChangeOwnerAddress := ascii "ChangeOwnerAddress"
def fnClaimDeveloperRewards := ascii "ClaimDeveloperRewards"
def fnSetUserName := ascii "SetUserName"

/-! ### ESDTTransfer (esdtTransfer.go) -/

def esdtTransfer (env : Env) (c : Call) : M VMOutput := do
  let sndP := present env.nshards env.self c.caller
  let dstP := present env.nshards env.self c.rcv
  let cost := env.gas.fn.esdtTransfer
  checkBasic c
  guardE (shardOf env.nshards c.rcv = metaShard) InvalidRcvAddr
  let tokenID ← argAt c.args 0
  let a1 ← argAt c.args 1
  let value := beNat a1
  guardE (value = 0) NegativeValue
  let gasRemaining := computeGasRemaining sndP c.gas cost
  let key := esdtKeyPrefix ++ tokenID
  if sndP then
    guardE (c.gas < cost) NotEnoughGas
    addToESDTBalance c.caller key (- (value : Int)) c.rae
  let isSCCallAfter := isSmartContractAddress c.rcv && c.args.length > 2
  let out : VMOutput := { gasRemaining := gasRemaining, rc := 0 }
  if dstP then
    verifyPayableIf env (mustVerifyPayable c 2) c.rcv
    addToESDTBalance c.rcv key value c.rae
    if isSCCallAfter then
      let out := { out with gasRemaining := (safeSubUint64 c.gas cost).getD 0 }
      let fn ← argAt c.args 2
      let out := addOutputTransfer c.caller fn (c.args.drop 3) c.rcv c.gasLocked c.callType out
      pure { out with logs := out.logs ++ [esdtLog fnESDTTransfer tokenID value [c.caller, c.rcv]] }
    else
      let out := if c.callType = 2 ∧ !sndP then { out with gasRemaining := c.gas } else out
      pure { out with logs := out.logs ++ [esdtLog fnESDTTransfer tokenID value [c.caller, c.rcv]] }
  else
    let out := if isSmartContractAddress c.caller
      then addOutputTransfer c.caller fnESDTTransfer c.args c.rcv c.gasLocked c.callType out
      else out
    pure { out with logs := out.logs ++ [esdtLog fnESDTTransfer tokenID value [c.caller]] }

/-! ### local mint / burn, ESDTBurn -/

/-- `checkInputArgumentsForLocalAction` -/
def checkLocalAction (sndP : Bool) (c : Call) (cost : Nat) : M Unit := do
  checkBasic c
  guardE (c.caller ≠ c.rcv) InvalidRcvAddr
  guardE (!sndP) NilUserAccount
  let a1 ← argAt c.args 1
  guardE (beNat a1 = 0) NegativeValue
  guardE (c.gas < cost) NotEnoughGas

def esdtLocalMint (env : Env) (c : Call) : M VMOutput := do
  let sndP := present env.nshards env.self c.caller
  let cost := env.gas.fn.esdtLocalMint
  checkLocalAction sndP c cost
  let tokenID ← argAt c.args 0
  checkAllowed c.caller tokenID roleLocalMint
  let a1 ← argAt c.args 1
  guardE (a1.length > maxLenMint) InvalidArguments
  let value := beNat a1
  addToESDTBalance c.caller (esdtKeyPrefix ++ tokenID) value c.rae
  pure { rc := 0, gasRemaining := u64 (c.gas - cost),
         logs := [esdtLog fnESDTLocalMint tokenID value [c.caller]] }

def esdtLocalBurn (env : Env) (c : Call) : M VMOutput := do
  let sndP := present env.nshards env.self c.caller
  let cost := env.gas.fn.esdtLocalBurn
  checkLocalAction sndP c cost
  let tokenID ← argAt c.args 0
  checkAllowed c.caller tokenID roleLocalBurn
  let a1 ← argAt c.args 1
  let value := beNat a1
  addToESDTBalance c.caller (esdtKeyPrefix ++ tokenID) (- (value : Int)) c.rae
  pure { rc := 0, gasRemaining := u64 (c.gas - cost),
         logs := [esdtLog fnESDTLocalBurn tokenID value [c.caller]] }

def esdtBurn (env : Env) (c : Call) : M VMOutput := do
  let sndP := present env.nshards env.self c.caller
  let cost := env.gas.fn.esdtBurn
  checkBasic c
  guardE (c.args.length ≠ 2) InvalidArguments
  let tokenID ← argAt c.args 0
  let a1 ← argAt c.args 1
  let value := beNat a1
  guardE (value = 0) NegativeValue
  guardE (c.rcv ≠ esdtSCAddress) AddressIsNotESDTSystemSC
  guardE (!sndP) NilUserAccount
  guardE (c.gas < cost) NotEnoughGas
  addToESDTBalance c.caller (esdtKeyPrefix ++ tokenID) (- (value : Int)) c.rae
  let out : VMOutput := { rc := 0, gasRemaining := computeGasRemaining sndP c.gas cost }
  let out := if isSmartContractAddress c.caller
    then addOutputTransfer c.caller fnESDTBurn c.args c.rcv c.gasLocked c.callType out
    else out
  pure { out with logs := out.logs ++ [esdtLog fnESDTBurn tokenID value [c.caller]] }

/-! ### NFT create / add quantity / burn / add URI / update attributes -/

/-- `checkESDTNFTCreateBurnAddInput` -/
def checkCreateBurnAdd (sndP : Bool) (c : Call) (cost : Nat) : M Unit := do
  checkBasic c
  guardE (c.caller ≠ c.rcv) InvalidRcvAddr
  guardE (!sndP) NilUserAccount
  guardE (c.gas < cost) NotEnoughGas

def totalLen (args : List Bytes) : Nat := (args.map List.length).sum

def esdtNFTCreate (env : Env) (c : Call) : M VMOutput := do
  let sndP := present env.nshards env.self c.caller
  let cost := env.gas.fn.esdtNFTCreate
  checkCreateBurnAdd sndP c cost
  guardE (c.args.length < 7) InvalidArguments
  let tokenID ← argAt c.args 0
  checkAllowed c.caller tokenID roleNFTCreate
  let nonce ← getLatestNonce c.caller tokenID
  let gasToUse := u64 (u64 (u64 (totalLen c.args) * env.gas.base.storePerByte) + cost)
  guardE (c.gas < gasToUse) NotEnoughGas
  let a3 ← argAt c.args 3
  let royalties := u32 (u64 (beNat a3))
  guardE (royalties > maxRoyalty) InvalidArguments
  let a1 ← argAt c.args 1
  let quantity := beNat a1
  guardE (quantity = 0) InvalidArguments
  checkAllowedIf (quantity > 1) c.caller tokenID roleNFTAddQuantity
  let nextNonce := u64 (nonce + 1)
  let a2 ← argAt c.args 2
  let a4 ← argAt c.args 4
  let a5 ← argAt c.args 5
  let m : MetaData :=
    { nonce := nextNonce, name := a2, creator := c.caller, royalties := royalties,
      hash := a4, attributes := a5, uris := c.args.drop 6 }
  let t : Token := { type := 1, value := some quantity, md := some m }
  let bytes ← saveNFT c.caller (esdtKeyPrefix ++ tokenID) t c.rae
  saveLatestNonce c.caller tokenID nextNonce
  let log := nftLog fnESDTNFTCreate c.caller tokenID nextNonce [bytes]
  pure { rc := 0, gasRemaining := u64 (c.gas - gasToUse), ret := [beBytes nextNonce], logs := [log] }

def esdtNFTAddQuantity (env : Env) (c : Call) : M VMOutput := do
  let sndP := present env.nshards env.self c.caller
  let cost := env.gas.fn.esdtNFTAddQuantity
  checkCreateBurnAdd sndP c cost
  guardE (c.args.length < 3) InvalidArguments
  let tokenID ← argAt c.args 0
  checkAllowed c.caller tokenID roleNFTAddQuantity
  let a1 ← argAt c.args 1
  let nonce := u64 (beNat a1)
  guardE (nonce = 0) NFTDoesNotHaveMetadata
  let tokenKey := esdtKeyPrefix ++ tokenID
  let t ← getNFTOnSender c.caller tokenKey nonce
  let a2 ← argAt c.args 2
  let v ← deref t.value
  let _ ← saveNFT c.caller tokenKey { t with value := some (v + beNat a2) } c.rae
  pure { rc := 0, gasRemaining := u64 (c.gas - cost),
         logs := [nftLog fnESDTNFTAddQuantity c.caller tokenID nonce []] }

def esdtNFTBurn (env : Env) (c : Call) : M VMOutput := do
  let sndP := present env.nshards env.self c.caller
  let cost := env.gas.fn.esdtNFTBurn
  checkCreateBurnAdd sndP c cost
  guardE (c.args.length < 3) InvalidArguments
  let tokenID ← argAt c.args 0
  checkAllowed c.caller tokenID roleNFTBurn
  let a1 ← argAt c.args 1
  let nonce := u64 (beNat a1)
  guardE (nonce = 0) NFTDoesNotHaveMetadata
  let tokenKey := esdtKeyPrefix ++ tokenID
  let t ← getNFTOnSender c.caller tokenKey nonce
  let a2 ← argAt c.args 2
  let q : Int := beNat a2
  let v ← deref t.value
  guardE (v < q) InvalidNFTQuantity
  let _ ← saveNFT c.caller tokenKey { t with value := some (v - q) } c.rae
  pure { rc := 0, gasRemaining := u64 (c.gas - cost),
         logs := [nftLog fnESDTNFTBurn c.caller tokenID nonce []] }

def esdtNFTAddURI (env : Env) (c : Call) : M VMOutput := do
  let sndP := present env.nshards env.self c.caller
  let cost := env.gas.fn.esdtNFTAddURI
  checkCreateBurnAdd sndP c cost
  guardE (c.args.length < 3) InvalidArguments
  let tokenID ← argAt c.args 0
  checkAllowed c.caller tokenID roleNFTAddURI
  let store := u64 (totalLen (c.args.drop 2) * env.gas.base.storePerByte)
  guardE (c.gas < u64 (cost + store)) NotEnoughGas
  let a1 ← argAt c.args 1
  let nonce := u64 (beNat a1)
  guardE (nonce = 0) NFTDoesNotHaveMetadata
  let tokenKey := esdtKeyPrefix ++ tokenID
  let t ← getNFTOnSender c.caller tokenKey nonce
  let m ← deref t.md
  let _ ← saveNFT c.caller tokenKey { t with md := some { m with uris := m.uris ++ c.args.drop 2 } } c.rae
  pure { rc := 0, gasRemaining := u64 (u64 (c.gas - cost) + two64 - store),
         logs := [nftLog fnESDTNFTAddURI c.caller tokenID nonce []] }

def esdtNFTUpdateAttributes (env : Env) (c : Call) : M VMOutput := do
  let sndP := present env.nshards env.self c.caller
  let cost := env.gas.fn.esdtNFTUpdateAttributes
  checkCreateBurnAdd sndP c cost
  guardE (c.args.length ≠ 3) InvalidArguments
  let tokenID ← argAt c.args 0
  checkAllowed c.caller tokenID roleNFTUpdateAttributes
  let a2 ← argAt c.args 2
  let store := u64 (a2.length * env.gas.base.storePerByte)
  guardE (c.gas < u64 (cost + store)) NotEnoughGas
  let a1 ← argAt c.args 1
  let nonce := u64 (beNat a1)
  guardE (nonce = 0) NFTDoesNotHaveMetadata
  let tokenKey := esdtKeyPrefix ++ tokenID
  let t ← getNFTOnSender c.caller tokenKey nonce
  let m ← deref t.md
  let _ ← saveNFT c.caller tokenKey { t with md := some { m with attributes := a2 } } c.rae
  pure { rc := 0, gasRemaining := u64 (u64 (c.gas - cost) + two64 - store),
         logs := [nftLog fnESDTNFTUpdateAttributes c.caller tokenID nonce []] }

/-! ### freeze / unfreeze / wipe, pause / unpause, roles -/

inductive FreezeKind | freeze | unfreeze | wipe
deriving DecidableEq, Repr

def esdtFreezeWipe (kind : FreezeKind) (env : Env) (c : Call) : M VMOutput := do
  let dstP := present env.nshards env.self c.rcv
  guardE (c.callValue ≠ 0) BuiltInFunctionCalledWithValue
  guardE (c.args.length ≠ 1) InvalidArguments
  guardE (c.caller ≠ esdtSCAddress) AddressIsNotESDTSystemSC
  guardE (!dstP) NilUserAccount
  let tokenID ← argAt c.args 0
  let key := esdtKeyPrefix ++ tokenID
  match kind with
  | .wipe =>
    let t ← getESDTDataFromKey c.rcv key
    guardE (!frozenOf t.properties) CannotWipeAccountNotFrozen
    writeKey c.rcv key []
    pure { rc := 0, logs := [esdtLog fnESDTWipe tokenID 0 [c.caller, c.rcv]] }
  | _ =>
    let t ← getESDTDataFromKey c.rcv key
    saveESDTData c.rcv { t with properties := flagBytes (kind == .freeze) } key
    pure { rc := 0 }

def esdtPause (pause : Bool) (_env : Env) (c : Call) : M VMOutput := do
  guardE (c.callValue ≠ 0) BuiltInFunctionCalledWithValue
  guardE (c.args.length ≠ 1) InvalidArguments
  guardE (c.caller ≠ esdtSCAddress) AddressIsNotESDTSystemSC
  guardE (!isSystemAccountAddress c.rcv) OnlySystemAccountAccepted
  let tokenID ← argAt c.args 0
  let key := esdtKeyPrefix ++ tokenID
  loadAcct
  writeKey systemAccountAddress key (flagBytes pause)
  saveAcct
  pure { rc := 0 }

def esdtRoles (set : Bool) (env : Env) (c : Call) : M VMOutput := do
  let dstP := present env.nshards env.self c.rcv
  checkBasic c
  guardE (c.caller ≠ esdtSCAddress) AddressIsNotESDTSystemSC
  guardE (!dstP) NilUserAccount
  let tokenID ← argAt c.args 0
  let roleKey := roleKeyPrefix ++ tokenID
  let (roles, _) ← getRoles c.rcv roleKey
  let roles' := if set then roles ++ c.args.drop 1 else deleteRoles roles (c.args.drop 1)
  saveRoles c.rcv roleKey roles'
  pure { rc := 0 }

/-! ### ESDTNFTCreateRoleTransfer -/

def addCreateRole (a roleKey : Bytes) : M Unit := do
  let (roles, _) ← getRoles a roleKey
  if roles.contains roleNFTCreate then pure ()
  else saveRoles a roleKey (roles ++ [roleNFTCreate])

def esdtNFTCreateRoleTransfer (env : Env) (c : Call) : M VMOutput := do
  let sndP := present env.nshards env.self c.caller
  let dstP := present env.nshards env.self c.rcv
  checkBasic c
  guardE sndP InvalidArguments
  guardE (!dstP) NilUserAccount
  if c.caller = esdtSCAddress then
    -- executeTransferNFTCreateChangeAtCurrentOwner
    guardE (c.args.length ≠ 2) InvalidArguments
    let tokenID ← argAt c.args 0
    let dest ← argAt c.args 1
    guardE (dest.length ≠ c.caller.length) InvalidArguments
    let nonce ← getLatestNonce c.rcv tokenID
    saveLatestNonce c.rcv tokenID 0
    let roleKey := roleKeyPrefix ++ tokenID
    let (roles, _) ← getRoles c.rcv roleKey
    saveRoles c.rcv roleKey (deleteRoles roles [roleNFTCreate])
    if shardOf env.nshards dest = env.self then
      loadAcct
      saveLatestNonce dest tokenID nonce
      addCreateRole dest roleKey
      saveAcct
    let tr : OutTransfer :=
      { value := 0, sender := c.caller, data := encodeCall fnESDTNFTCreateRoleTransfer [tokenID, beBytes nonce] }
    pure { rc := 0, outAccts := [{ addr := dest, balance := some 0, delta := some 0, transfers := [tr] }] }
  else
    -- executeTransferNFTCreateChangeAtNextOwner
    guardE (c.args.length ≠ 2) InvalidArguments
    let tokenID ← argAt c.args 0
    let a1 ← argAt c.args 1
    let nonce := u64 (beNat a1)
    saveLatestNonce c.rcv tokenID nonce
    addCreateRole c.rcv (roleKeyPrefix ++ tokenID)
    pure { rc := 0 }

/-! ### SaveKeyValue, ChangeOwnerAddress, ClaimDeveloperRewards, SetUserName -/

/-- the loop of `saveKeyValueStorage.ProcessBuiltinFunction` over (key, value) pairs -/
def skvLoop (env : Env) (c : Call) : List Bytes → Nat → M Nat
  | k :: v :: rest, useGas => do
    let useGas := u64 (useGas + u64 ((v.length + k.length) * env.gas.base.persistPerByte))
    guardE (!isAllowedToSaveUnderKey k) OperationNotPermitted
    let old ← readKey c.caller k
    if old = v then skvLoop env c rest useGas
    else
      let change := if old.length < v.length then v.length - old.length else 0
      let useGas := u64 (useGas + u64 (env.gas.base.storePerByte * change))
      guardE (c.gas < useGas) NotEnoughGas
      writeKey c.caller k v
      skvLoop env c rest useGas
  | [_], _ => goPanic        -- unreachable: the argument count is even
  | [], useGas => pure useGas

def saveKeyValue (env : Env) (c : Call) : M VMOutput := do
  let sndP := present env.nshards env.self c.caller
  guardE (c.args.length < 2) InvalidArguments
  guardE (c.args.length % 2 ≠ 0) InvalidArguments
  guardE (c.callValue ≠ 0) BuiltInFunctionCalledWithValue
  guardE (!sndP) NilSCDestAccount
  guardE (c.caller ≠ c.rcv) OperationNotPermitted
  guardE (isSmartContractAddress c.caller) OperationNotPermitted
  let useGas ← skvLoop env c c.args env.gas.fn.saveKeyValue
  guardE (c.gas < useGas) NotEnoughGas
  pure { rc := 0, gasRemaining := c.gas - useGas }

def changeOwnerAddress (env : Env) (c : Call) : M VMOutput := do
  let sndP := present env.nshards env.self c.caller
  let dstP := present env.nshards env.self c.rcv
  let cost := env.gas.fn.changeOwnerAddress
  guardE (c.args.length = 0) InvalidArguments
  guardE (c.callValue ≠ 0) BuiltInFunctionCalledWithValue
  let a0 ← argAt c.args 0
  guardE (a0.length ≠ c.caller.length) InvalidAddressLength
  guardE (c.gas < cost) NotEnoughGas
  let gasRemaining := computeGasRemaining sndP c.gas cost
  if !dstP then pure { rc := 0, gasRemaining := gasRemaining }
  else
    let acct ← getAcct c.rcv
    guardE (c.caller ≠ acct.owner) OperationNotPermitted
    tick .o
    guardE (a0.length ≠ c.rcv.length) Other       -- account's own ChangeOwnerAddress check (Appendix C, E8)
    setOwner c.rcv a0
    pure { rc := 0, gasRemaining := gasRemaining }

def claimDeveloperRewards (env : Env) (c : Call) : M VMOutput := do
  let sndP := present env.nshards env.self c.caller
  let dstP := present env.nshards env.self c.rcv
  let cost := env.gas.fn.claimDeveloperRewards
  guardE (c.callValue ≠ 0) BuiltInFunctionCalledWithValue
  let gasRemaining := computeGasRemaining sndP c.gas cost
  if !dstP then pure { rc := 0, gasRemaining := gasRemaining }
  else
    let acct ← getAcct c.rcv
    guardE (c.caller ≠ acct.owner) OperationNotPermitted
    guardE (c.gas < cost) NotEnoughGas
    tick .c
    let value := acct.reward
    setReward c.rcv 0
    let tr : OutTransfer := { value := value, gasLimit := 0, callType := 0, sender := c.caller }
    let (tr, gasRemaining) := if c.callType = 1
      then ({ tr with gasLocked := c.gasLocked, gasLimit := gasRemaining, callType := 2 }, 0)
      else (tr, gasRemaining)
    let out : VMOutput :=
      { rc := 0, gasRemaining := gasRemaining, outAccts := [{ addr := c.caller, delta := some value, transfers := [tr] }] }
    if !sndP then pure out
    else
      tick .b
      let snd ← getAcct c.caller
      guardE (snd.balance + value < 0) Other
      setBalance c.caller (snd.balance + value)
      if isSmartContractAddress c.caller then pure { out with outAccts := [] } else pure out

def setUserName (env : Env) (c : Call) : M VMOutput := do
  let dstP := present env.nshards env.self c.rcv
  let cost := env.gas.fn.saveUserName
  guardE (c.callValue ≠ 0) BuiltInFunctionCalledWithValue
  guardE (c.gas < cost) NotEnoughGas
  guardE (!env.dns.contains c.caller) CallerIsNotTheDNSAddress
  guardE (c.args.length ≠ 1) InvalidArguments
  let a0 ← argAt c.args 0
  if !dstP then
    let tr : OutTransfer :=
      { value := 0, gasLimit := c.gas, gasLocked := c.gasLocked, data := encodeCall fnSetUserName [a0],
        callType := 1, sender := c.caller }
    pure { rc := 0, outAccts := [{ addr := c.rcv, transfers := [tr] }] }
  else
    let acct ← getAcct c.rcv
    guardE (!env.nameChange ∧ acct.name.length > 0) UserNameChangeIsDisabled
    setName c.rcv a0
    pure { rc := 0, gasRemaining := c.gas - cost }

/-! ### ESDTNFTTransfer (esdtNFTTransfer.go) -/

/-- the hash comparison of `addNFTToDestination` (dereferences the transferred token's metadata) -/
def checkSameHash (cur t : Token) : M Unit :=
  match cur.md with
  | some cm =>
    match t.md with
    | some tm => guardE (cm.hash ≠ tm.hash) WrongNFTOnDestination
    | none => fail .WrongNFTOnDestination
  | none => pure ()

/-- `addNFTToDestination` (identical in esdtNFTTransfer.go and, after the repair, in
    multiESDTNFTTransfer.go); returns the transferred token as mutated by the Go code
    (`Value` = transferred + existing). -/
def addNFTToDestination (env : Env) (dst : Bytes) (t : Token) (tokenKey : Bytes)
    (mustVerify rae : Bool) : M Token := do
  verifyPayableIf env mustVerify dst
  let nonce := match t.md with | some m => m.nonce | none => 0
  let (cur, _) ← getNFTOnDestination dst tokenKey nonce
  checkFrozeAndPause dst tokenKey cur rae
  checkSameHash cur t
  let tv ← deref t.value
  let cv ← deref cur.value
  let t' := { t with value := some (tv + cv) }
  let _ ← saveNFT dst tokenKey t' rae
  pure t'

def esdtNFTTransferSender (env : Env) (c : Call) : M VMOutput := do
  let sndP := present env.nshards env.self c.caller
  let cost := env.gas.fn.esdtNFTTransfer
  let tokenID ← argAt c.args 0
  let dst ← argAt c.args 3
  guardE (dst.length ≠ c.caller.length) InvalidArguments
  guardE (dst = c.caller) InvalidArguments
  guardE (shardOf env.nshards dst = metaShard) InvalidRcvAddr
  guardE (c.gas < cost) NotEnoughGas
  let tokenKey := esdtKeyPrefix ++ tokenID
  let a1 ← argAt c.args 1
  let nonce := u64 (beNat a1)
  guardE (nonce = 0) NFTDoesNotHaveMetadata
  if !sndP then goPanic        -- nil sender account dereferenced (not transaction-reachable, E1)
  let t ← getNFTOnSender c.caller tokenKey nonce
  let a2 ← argAt c.args 2
  let q : Int := beNat a2
  let v ← deref t.value
  guardE (v < q) InvalidNFTQuantity
  let _ ← saveNFT c.caller tokenKey { t with value := some (v - q) } c.rae
  let t := { t with value := some q }
  let sameShard := env.self = shardOf env.nshards dst
  let t ← if sameShard then do
      loadAcct
      let t' ← addNFTToDestination env dst t tokenKey (mustVerifyPayable c 4) c.rae
      saveAcct
      pure t'
    else pure t
  -- createNFTOutputTransfers
  let bytes ← marshalToken t
  let gasRemaining := c.gas - cost
  let gasForTransfer := u64 (bytes.length * env.gas.base.dataCopyPerByte)
  guardE (gasForTransfer > gasRemaining) NotEnoughGas
  let gasRemaining := gasRemaining - gasForTransfer
  let callArgs := c.args.take 3 ++ [bytes] ++ (if c.args.length > 4 then c.args.drop 4 else [])
  let isSCCallAfter := c.args.length > 4 && isSmartContractAddress dst
  let out : VMOutput := { rc := 0, gasRemaining := gasRemaining }
  let out ←
    if !sameShard then
      let (gasToTransfer, out) := if isSCCallAfter then (out.gasRemaining, { out with gasRemaining := 0 }) else (0, out)
      pure (addNFTTransfer c.caller dst fnESDTNFTTransfer callArgs c.gasLocked gasToTransfer c.callType out)
    else if isSCCallAfter then do
      let fn ← argAt c.args 4
      pure (addOutputTransfer c.caller fn (c.args.drop 5) dst c.gasLocked c.callType out)
    else pure out
  let m ← deref t.md
  pure { out with logs := [nftLog fnESDTNFTTransfer c.caller tokenID m.nonce [dst]] }

def esdtNFTTransfer (env : Env) (c : Call) : M VMOutput := do
  let sndP := present env.nshards env.self c.caller
  let dstP := present env.nshards env.self c.rcv
  checkBasic c
  guardE (c.args.length < 4) InvalidArguments
  if c.caller = c.rcv then esdtNFTTransferSender env c
  else
    guardE sndP InvalidRcvAddr
    guardE (!dstP) InvalidRcvAddr
    let tokenID ← argAt c.args 0
    let tokenKey := esdtKeyPrefix ++ tokenID
    let a3 ← argAt c.args 3
    let t ← unmarshalToken a3
    let _ ← addNFTToDestination env c.rcv t tokenKey (mustVerifyPayable c 4) c.rae
    let out : VMOutput := { gasRemaining := c.gas }
    let out ← if c.args.length > 4 && isSmartContractAddress c.rcv then do
        let fn ← argAt c.args 4
        pure (addOutputTransfer c.caller fn (c.args.drop 5) c.rcv c.gasLocked c.callType out)
      else pure out
    let m ← deref t.md
    pure { out with logs := [nftLog fnESDTNFTTransfer c.caller tokenID m.nonce [c.rcv]] }

/-! ### MultiESDTNFTTransfer (multiESDTNFTTransfer.go) -/

/-- `transferOneTokenOnSenderShard` -/
def transferOne (env : Env) (c : Call) (dstLocal : Bool) (dst tokenID : Bytes) (nonce : Nat) (q : Nat)
    (verify : Bool) : M Token := do
  guardE (q = 0) InvalidNFTQuantity
  let tokenKey := esdtKeyPrefix ++ tokenID
  let t ← getNFTOnSender c.caller tokenKey nonce
  let v ← deref t.value
  guardE (v < (q : Int)) InvalidNFTQuantity
  let _ ← saveNFT c.caller tokenKey { t with value := some (v - q) } c.rae
  let t := { t with value := some (q : Int) }
  if dstLocal then addNFTToDestination env dst t tokenKey verify c.rae
  else pure t

/-- sender-side loop: returns transferred tokens, their ids and the log entries -/
def multiSenderLoop (env : Env) (c : Call) (dstLocal : Bool) (dst : Bytes) (verify : Bool) :
    Nat → Nat → M (List (Bytes × Token) × List LogEntry)
  | 0, _ => pure ([], [])
  | n + 1, idx => do
    let tokenID ← argAt c.args idx
    let a1 ← argAt c.args (idx + 1)
    let a2 ← argAt c.args (idx + 2)
    let nonce := u64 (beNat a1)
    let t ← transferOne env c dstLocal dst tokenID nonce (beNat a2) verify
    let log := nftLog fnMultiESDTNFTTransfer c.caller tokenID nonce [dst]
    let (ts, logs) ← multiSenderLoop env c dstLocal dst verify n (idx + 3)
    pure ((tokenID, t) :: ts, log :: logs)

/-- the per-token part of `createESDTNFTOutputTransfers`: arguments and gas -/
def multiPayloadLoop (env : Env) : List (Bytes × Token) → Nat → M (List Bytes × Nat)
  | [], gasRemaining => pure ([], gasRemaining)
  | (tokenID, t) :: rest, gasRemaining => do
    match t.md with
    | some m =>
      let bytes ← marshalToken t
      let g := u64 (bytes.length * env.gas.base.dataCopyPerByte)
      guardE (g > gasRemaining) NotEnoughGas
      let (args, gr) ← multiPayloadLoop env rest (gasRemaining - g)
      pure (tokenID :: beBytes m.nonce :: bytes :: args, gr)
    | none =>
      let v ← deref t.value
      let (args, gr) ← multiPayloadLoop env rest gasRemaining
      pure (tokenID :: [0] :: beBytes v.natAbs :: args, gr)

def multiTransferSender (env : Env) (c : Call) : M VMOutput := do
  let sndP := present env.nshards env.self c.caller
  let funcCost := env.gas.fn.esdtNFTMultiTransfer
  let dst ← argAt c.args 0
  guardE (dst.length ≠ c.caller.length) InvalidArguments
  guardE (dst = c.caller) InvalidArguments
  guardE (shardOf env.nshards dst = metaShard) InvalidRcvAddr
  let a1 ← argAt c.args 1
  let n := u64 (beNat a1)
  guardE (n = 0) InvalidArguments
  guardE (n > c.args.length / 3) InvalidArguments
  let minArgs := u64 (u64 (n * 3) + 2)
  guardE (c.args.length < minArgs) InvalidArguments
  let cost := u64 (n * funcCost)
  guardE (c.gas < cost) NotEnoughGas
  let verify := mustVerifyPayable c minArgs
  let dstLocal := env.self = shardOf env.nshards dst
  if dstLocal then loadAcct
  if !sndP then goPanic        -- nil sender account dereferenced (not transaction-reachable, E1)
  let (toks, logs) ← multiSenderLoop env c dstLocal dst verify n 2
  if dstLocal then saveAcct
  -- createESDTNFTOutputTransfers
  let (payload, gasRemaining) ← multiPayloadLoop env toks (c.gas - cost)
  let callArgs := beBytes toks.length :: payload ++ (if c.args.length > minArgs then c.args.drop minArgs else [])
  let isSCCallAfter := c.args.length > minArgs && isSmartContractAddress dst
  let out : VMOutput := { rc := 0, gasRemaining := gasRemaining, logs := logs }
  if !dstLocal then
    let (gasToTransfer, out) := if isSCCallAfter then (out.gasRemaining, { out with gasRemaining := 0 }) else (0, out)
    pure (addNFTTransfer c.caller dst fnMultiESDTNFTTransfer callArgs c.gasLocked gasToTransfer c.callType out)
  else if isSCCallAfter then
    let fn ← argAt c.args minArgs
    pure (addOutputTransfer c.caller fn (c.args.drop (minArgs + 1)) dst c.gasLocked c.callType out)
  else pure out

/-- destination-side loop -/
def multiDestLoop (env : Env) (c : Call) (minArgs : Nat) : Nat → Nat → M (List LogEntry)
  | 0, _ => pure []
  | n + 1, idx => do
    let tokenID ← argAt c.args idx
    let a1 ← argAt c.args (idx + 1)
    let a2 ← argAt c.args (idx + 2)
    let nonce := u64 (beNat a1)
    let tokenKey := esdtKeyPrefix ++ tokenID
    if nonce > 0 then
      let t ← unmarshalToken a2
      let _ ← addNFTToDestination env c.rcv t tokenKey (mustVerifyPayable c minArgs) c.rae
    else
      verifyPayableIf env (mustVerifyPayable c minArgs) c.rcv
      addToESDTBalance c.rcv tokenKey (beNat a2) c.rae
    let log := nftLog fnMultiESDTNFTTransfer c.caller tokenID nonce [c.rcv]
    let logs ← multiDestLoop env c minArgs n (idx + 3)
    pure (log :: logs)

def multiTransfer (env : Env) (c : Call) : M VMOutput := do
  let sndP := present env.nshards env.self c.caller
  let dstP := present env.nshards env.self c.rcv
  checkBasic c
  guardE (c.args.length < 4) InvalidArguments
  if c.caller = c.rcv then multiTransferSender env c
  else
    guardE sndP InvalidRcvAddr
    guardE (!dstP) InvalidRcvAddr
    let a0 ← argAt c.args 0
    let n := u64 (beNat a0)
    guardE (n = 0) InvalidArguments
    guardE (n > c.args.length / 3) InvalidArguments
    let minArgs := u64 (u64 (n * 3) + 1)
    guardE (c.args.length < minArgs) InvalidArguments
    let logs ← multiDestLoop env c minArgs n 1
    let out : VMOutput := { gasRemaining := c.gas, logs := logs }
    if c.args.length > minArgs && isSmartContractAddress c.rcv then
      let fn ← argAt c.args minArgs
      pure (addOutputTransfer c.caller fn (c.args.drop (minArgs + 1)) c.rcv c.gasLocked c.callType out)
    else pure out

/-! ### registry / dispatch (factory.go) -/

inductive FnId
  | claimDeveloperRewards | changeOwnerAddress | setUserName | saveKeyValue
  | esdtPause | esdtUnPause | esdtTransfer | esdtBurn | esdtFreeze | esdtUnFreeze | esdtWipe
  | unSetRole | setRole | localBurn | localMint | nftAddQuantity | nftBurn | nftCreate
  | nftTransfer | nftCreateRoleTransfer | nftUpdateAttributes | nftAddURI | multiTransfer
deriving DecidableEq, Repr

def FnId.all : List FnId :=
  [.claimDeveloperRewards, .changeOwnerAddress, .setUserName, .saveKeyValue, .esdtPause, .esdtUnPause,
   .esdtTransfer, .esdtBurn, .esdtFreeze, .esdtUnFreeze, .esdtWipe, .unSetRole, .setRole, .localBurn,
   .localMint, .nftAddQuantity, .nftBurn, .nftCreate, .nftTransfer, .nftCreateRoleTransfer,
   .nftUpdateAttributes, .nftAddURI, .multiTransfer]

def FnId.name : FnId → Bytes
  | .claimDeveloperRewards => fnClaimDeveloperRewards
  | .changeOwnerAddress => fnChangeOwnerAddress
  | .setUserName => fnSetUserName
  | .saveKeyValue => fnSaveKeyValue
  | .esdtPause => fnESDTPause
  | .esdtUnPause => fnESDTUnPause
  | .esdtTransfer => fnESDTTransfer
  | .esdtBurn => fnESDTBurn
  | .esdtFreeze => fnESDTFreeze
  | .esdtUnFreeze => fnESDTUnFreeze
  | .esdtWipe => fnESDTWipe
  | .unSetRole => fnUnSetESDTRole
  | .setRole => fnSetESDTRole
  | .localBurn => fnESDTLocalBurn
  | .localMint => fnESDTLocalMint
  | .nftAddQuantity => fnESDTNFTAddQuantity
  | .nftBurn => fnESDTNFTBurn
  | .nftCreate => fnESDTNFTCreate
  | .nftTransfer => fnESDTNFTTransfer
  | .nftCreateRoleTransfer => fnESDTNFTCreateRoleTransfer
  | .nftUpdateAttributes => fnESDTNFTUpdateAttributes
  | .nftAddURI => fnESDTNFTAddURI
  | .multiTransfer => fnMultiESDTNFTTransfer

def FnId.ofName (n : Bytes) : Option FnId := FnId.all.find? (fun f => f.name == n)

/-- functions gated by `ESDTNFTImprovementV1ActivationEpoch` -/
def FnId.epochGated : FnId → Bool
  | .nftUpdateAttributes | .nftAddURI | .multiTransfer => true
  | _ => false

def FnId.isActive (f : FnId) (env : Env) : Bool := if f.epochGated then env.active else true

def runFn : FnId → Env → Call → M VMOutput
  | .claimDeveloperRewards => Esdt.claimDeveloperRewards
  | .changeOwnerAddress => Esdt.changeOwnerAddress
  | .setUserName => Esdt.setUserName
  | .saveKeyValue => Esdt.saveKeyValue
  | .esdtPause => Esdt.esdtPause true
  | .esdtUnPause => Esdt.esdtPause false
  | .esdtTransfer => Esdt.esdtTransfer
  | .esdtBurn => Esdt.esdtBurn
  | .esdtFreeze => Esdt.esdtFreezeWipe .freeze
  | .esdtUnFreeze => Esdt.esdtFreezeWipe .unfreeze
  | .esdtWipe => Esdt.esdtFreezeWipe .wipe
  | .unSetRole => Esdt.esdtRoles false
  | .setRole => Esdt.esdtRoles true
  | .localBurn => Esdt.esdtLocalBurn
  | .localMint => Esdt.esdtLocalMint
  | .nftAddQuantity => Esdt.esdtNFTAddQuantity
  | .nftBurn => Esdt.esdtNFTBurn
  | .nftCreate => Esdt.esdtNFTCreate
  | .nftTransfer => Esdt.esdtNFTTransfer
  | .nftCreateRoleTransfer => Esdt.esdtNFTCreateRoleTransfer
  | .nftUpdateAttributes => Esdt.esdtNFTUpdateAttributes
  | .nftAddURI => Esdt.esdtNFTAddURI
  | .multiTransfer => Esdt.multiTransfer

/-- one built-in call with node rollback: on `err` / `panic` the pre-state is kept by the caller -/
def exec (env : Env) (f : FnId) (c : Call) (ctx : Ctx) : Res (VMOutput × Ctx) := runFn f env c ctx

end Esdt
