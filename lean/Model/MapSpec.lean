/-
  Model/MapSpec.lean — sequential specifications of the shared objects of C19 (core-only: the model driver executes
  `mapSpec` next to the real `MutexMap`, Proofs/Linearizable.lean proves linearizability against it).
-/
namespace Lin

/-- the sequential specification of a shared object: `apply` performs an operation, `isWrite` says which operations take
    the WRITE lock (the others take the read lock and may overlap each other) -/
structure Spec (σ ι ο : Type) where
  apply : σ → ι → σ × ο
  isWrite : ι → Bool

section Map
variable {κ ν : Type} [DecidableEq κ]

inductive MapOp (κ ν : Type)
  | get (k : κ) | insert (k : κ) (v : ν) | set (k : κ) (v : ν) | remove (k : κ) | len | keys

inductive MapOut (κ ν : Type)
  | val (o : Option ν) | ok (b : Bool) | unit | num (n : Nat) | list (l : List κ)

def mget (m : List (κ × ν)) (k : κ) : Option ν := (m.find? (fun p => p.1 = k)).map (·.2)
def mdel (m : List (κ × ν)) (k : κ) : List (κ × ν) := m.filter (fun p => p.1 ≠ k)

/-- `MutexMap`: Get / Len / Keys under the read lock; Insert (test-and-set), Set, Remove under the write lock -/
def mapSpec : Spec (List (κ × ν)) (MapOp κ ν) (MapOut κ ν) where
  apply m
    | .get k => (m, .val (mget m k))
    | .insert k v => if (mget m k).isSome then (m, .ok false) else ((k, v) :: m, .ok true)
    | .set k v => ((k, v) :: mdel m k, .unit)
    | .remove k => (mdel m k, .unit)
    | .len => (m, .num m.length)
    | .keys => (m, .list (m.map (·.1)))
  isWrite
    | .insert _ _ | .set _ _ | .remove _ => true
    | _ => false

end Map

end Lin
