/-
  Model/Helpers.lean — constants (tied to /repo through Facts/Generated.lean obligations),
  address classification (address.go), code / ESDT metadata (codeMetadata.go, esdtMetaData.go),
  SafeSubUint64 (gasCost.go), MergeOutputAccounts (output.go), shard topology of the harness.
-/
import Model.State
namespace Esdt

/-! ### constants -/

def protectedPrefix : Bytes := ascii "ELROND"
def esdtKeyPrefix : Bytes := ascii "ELRONDesdt"
def roleKeyPrefix : Bytes := ascii "ELRONDroleesdt"
def nonceKeyPrefix : Bytes := ascii "ELRONDnonce"

def esdtSCAddress : Bytes :=
  [0,0,0,0,0,0,0,0,0,1,0,0,0,0,0,0,0,0,0,0,0,0,0,0,0,0,0,0,0,2,255,255]
def systemAccountAddress : Bytes := List.replicate 32 255

def roleLocalMint : Bytes := ascii "ESDTRoleLocalMint"
def roleLocalBurn : Bytes := ascii "ESDTRoleLocalBurn"
def roleNFTCreate : Bytes := ascii "ESDTRoleNFTCreate"
def roleNFTAddQuantity : Bytes := ascii "ESDTRoleNFTAddQuantity"
def roleNFTBurn : Bytes := ascii "ESDTRoleNFTBurn"
def roleNFTAddURI : Bytes := ascii "ESDTRoleNFTAddURI"
def roleNFTUpdateAttributes : Bytes := ascii "ESDTRoleNFTUpdateAttributes"

def metaShard : Nat := 4294967295
def maxRoyalty : Nat := 10000
def maxLenMint : Nat := 100

/-! ### address.go -/

def isEmptyAddress (a : Bytes) : Bool := a.all (· == 0)

def isSmartContractAddress (a : Bytes) : Bool :=
  if a.length ≤ 10 then false
  else if isEmptyAddress a then true
  else (a.take 8).all (· == 0)

def isSystemAccountAddress (a : Bytes) : Bool :=
  if a.length < 30 then false else a.take 30 == List.replicate 30 255

def isMetachainIdentifier (id : Bytes) : Bool :=
  if id.length = 0 then false else id.all (· == 255)

def isSmartContractOnMetachain (id a : Bytes) : Bool :=
  if a.length ≤ 25 then false
  else if !isMetachainIdentifier id then false
  else if !isSmartContractAddress a then false
  else ((a.drop 10).take 15).all (· == 0)

def isAllowedToSaveUnderKey (k : Bytes) : Bool :=
  if k.length < protectedPrefix.length then true
  else !(k.take protectedPrefix.length == protectedPrefix)

/-- topology shared by harness and driver (PROTOCOL.md §1) -/
def shardOf (nshards : Nat) (a : Bytes) : Nat :=
  let last : UInt8 := a.getLast?.getD 0
  if isSmartContractOnMetachain [last] a then metaShard
  else last.toNat % nshards

def present (nshards self : Nat) (a : Bytes) : Bool :=
  a == systemAccountAddress || shardOf nshards a == self

/-! ### metadata bytes -/

structure CodeMetadata where
  payable : Bool := false
  upgradeable : Bool := false
  readable : Bool := false
deriving DecidableEq, Repr

def codeMetadataFromBytes : Bytes → CodeMetadata
  | [b0, b1] => { upgradeable := b0 &&& 1 != 0, readable := b0 &&& 4 != 0, payable := b1 &&& 2 != 0 }
  | _ => {}

def CodeMetadata.toBytes (m : CodeMetadata) : Bytes :=
  [ (if m.upgradeable then 1 else 0) ||| (if m.readable then 4 else 0), if m.payable then 2 else 0 ]

/-- `ESDTUserMetadataFromBytes(...).Frozen` -/
def frozenOf : Bytes → Bool
  | [b0, _] => b0 &&& 1 != 0
  | _ => false

/-- `ESDTGlobalMetadataFromBytes(...).Paused` -/
def pausedOf : Bytes → Bool
  | [b0, _] => b0 &&& 1 != 0
  | _ => false

/-- `ESDTUserMetadata{Frozen}.ToBytes()` and `ESDTGlobalMetadata{Paused}.ToBytes()` -/
def flagBytes (f : Bool) : Bytes := [if f then 1 else 0, 0]

/-! ### gasCost.go -/

def safeSubUint64 (a b : Nat) : Option Nat := if a < b then none else some (a - b)

/-- `computeGasRemaining` (changeOwnerAddress.go) -/
def computeGasRemaining (sndPresent : Bool) (gas cost : Nat) : Nat :=
  if gas < cost then 0 else if !sndPresent then 0 else gas - cost

end Esdt
