#!/bin/sh
# Builds the harness and replays testdata/sample.ops; the output must equal testdata/sample.obs
# byte for byte (twice: determinism). Also checks that world/errtable.go matches /repo's sentinels.
set -e
cd "$(dirname "$0")"
export GOFLAGS=-mod=mod GOPROXY=off GOSUMDB=off GOTOOLCHAIN=local

tmp=$(mktemp -d)
trap 'rm -rf "$tmp"' EXIT

./gen_errtable.sh "$tmp/errtable.go"
if ! cmp -s "$tmp/errtable.go" world/errtable.go; then
	echo "selftest: FAIL world/errtable.go is stale (run ./gen_errtable.sh)" >&2
	exit 1
fi

go build -tags verif -o bin/harness ./cmd/harness

bin/harness exec <testdata/sample.ops >"$tmp/run1.obs"
bin/harness exec <testdata/sample.ops >"$tmp/run2.obs"

if ! cmp -s "$tmp/run1.obs" "$tmp/run2.obs"; then
	echo "selftest: FAIL two runs differ" >&2
	exit 1
fi
if ! cmp -s "$tmp/run1.obs" testdata/sample.obs; then
	echo "selftest: FAIL output differs from testdata/sample.obs" >&2
	diff "$tmp/run1.obs" testdata/sample.obs | head -20 >&2
	exit 1
fi
ops=$(wc -l <testdata/sample.ops)
obs=$(wc -l <"$tmp/run1.obs")
if [ "$ops" != "$obs" ]; then
	echo "selftest: FAIL $ops op lines but $obs observation lines" >&2
	exit 1
fi
echo "selftest: PASS ($obs observations)"
