package oracle

import (
	"bytes"
	"fmt"
	"math/big"
	"strings"

	vmcommon "github.com/ElrondNetwork/elrond-vm-common"
	"github.com/ElrondNetwork/elrond-vm-common/data/esdt"
	"github.com/ElrondNetwork/elrond-vm-common/parsers"

	"verifharness/world"
)

// pbMarshalizer is the production codec (generated Marshal; Reset + Unmarshal) for the real parser.
type pbMarshalizer struct{}

type pbObject interface {
	Marshal() ([]byte, error)
	Unmarshal([]byte) error
	Reset()
}

func (pbMarshalizer) Marshal(obj interface{}) ([]byte, error) {
	o, ok := obj.(pbObject)
	if !ok {
		return nil, fmt.Errorf("not a protobuf object")
	}
	return o.Marshal()
}

func (pbMarshalizer) Unmarshal(obj interface{}, buff []byte) error {
	o, ok := obj.(pbObject)
	if !ok {
		return fmt.Errorf("not a protobuf object")
	}
	o.Reset()
	return o.Unmarshal(buff)
}

func (pbMarshalizer) IsInterfaceNil() bool { return false }

var esdtParser, _ = parsers.NewESDTTransferParser(pbMarshalizer{})

// ---------------------------------------------------------------------------
// shape of a transfer call
// ---------------------------------------------------------------------------

type xferItem struct {
	tok     []byte
	nonce   uint64
	qty     *big.Int
	payload *TokInfo // destination form NFT item: the decoded payload
}

func (it xferItem) key() string { return TokenKey(it.tok, it.nonce) }

// xferShape is the spec-side reading of the input of one of the three transfer functions.
type xferShape struct {
	ok         bool   // structurally valid
	senderForm bool   // NFT / multi: caller == rcv; ESDTTransfer: caller present on the executing shard
	dest       []byte // the account to be credited
	items      []xferItem
	minArgs    int
	attached   bool
	attFn      string
	attArgs    [][]byte
}

func shapeOf(w *world.World, c *world.Call) xferShape {
	return shapeOfArgs(c.Fn, c.Caller, c.Rcv, c.Args, w.Present(c.Shard, c.Caller))
}

func shapeOfArgs(fn string, caller, rcv []byte, a [][]byte, callerPresent bool) xferShape {
	s := xferShape{}
	switch fn {
	case FnTransfer:
		if len(a) < 2 {
			return s
		}
		s.senderForm = callerPresent
		s.dest = rcv
		s.items = []xferItem{{tok: a[0], qty: Big(a[1])}}
		s.minArgs = 2
	case FnNFTTransfer:
		if len(a) < 4 {
			return s
		}
		s.minArgs = 4
		if bytes.Equal(caller, rcv) {
			s.senderForm = true
			s.dest = a[3]
			s.items = []xferItem{{tok: a[0], nonce: U64(a[1]), qty: Big(a[2])}}
		} else {
			s.dest = rcv
			p := DecodeToken(a[3])
			it := xferItem{tok: a[0], qty: p.Val(), payload: p}
			if m := p.Meta(); m != nil {
				it.nonce = m.Nonce
			}
			s.items = []xferItem{it}
		}
	case FnMultiTransfer:
		if len(a) < 4 {
			return s
		}
		start := 1
		nArg := a[0]
		s.dest = rcv
		if bytes.Equal(caller, rcv) {
			s.senderForm = true
			s.dest = a[0]
			nArg = a[1]
			start = 2
		}
		n := U64(nArg)
		if n == 0 || n > uint64(len(a))/3 || uint64(len(a)) < 3*n+uint64(start) {
			return s
		}
		s.minArgs = int(3*n) + start
		for i := 0; i < int(n); i++ {
			tok, nb, v := a[start+3*i], a[start+3*i+1], a[start+3*i+2]
			nonce := U64(nb)
			switch {
			case s.senderForm || nonce == 0:
				s.items = append(s.items, xferItem{tok: tok, nonce: nonce, qty: Big(v)})
			default:
				p := DecodeToken(v)
				it := xferItem{tok: tok, qty: p.Val(), payload: p}
				if m := p.Meta(); m != nil {
					it.nonce = m.Nonce
				}
				s.items = append(s.items, it)
			}
		}
	default:
		return s
	}
	s.ok = true
	if len(a) > s.minArgs {
		s.attached = true
		s.attFn = string(a[s.minArgs])
		s.attArgs = a[s.minArgs+1:]
	}
	return s
}

// mustVerifyPayable is the spec-side bypass rule of C09.
func mustVerifyPayable(c *world.Call, minArgs int) bool {
	if c.CallType == 2 || c.CallType == 3 {
		return false
	}
	if bytes.Equal(c.Caller, ESDTSC) {
		return false
	}
	return len(c.Args) <= minArgs
}

// ---------------------------------------------------------------------------
// diff helpers
// ---------------------------------------------------------------------------

// sortedOutputAccounts lists the non-nil output accounts in map-key order (deterministic findings).
func sortedOutputAccounts(out *vmcommon.VMOutput) []*vmcommon.OutputAccount {
	keys := make([]string, 0, len(out.OutputAccounts))
	for k := range out.OutputAccounts {
		keys = append(keys, k)
	}
	sortStrings(keys)
	oas := make([]*vmcommon.OutputAccount, 0, len(keys))
	for _, k := range keys {
		if oa := out.OutputAccounts[k]; oa != nil {
			oas = append(oas, oa)
		}
	}
	return oas
}

type diffSlot struct {
	addr    []byte
	key     string // storage key ("" for non-storage slots)
	storage bool
	slot    string
	new     []byte // new storage value (nil when deleted)
}

func diffSlots(res *world.CallResult) []diffSlot {
	out := make([]diffSlot, 0, len(res.Diff))
	for _, d := range res.Diff {
		ds := diffSlot{addr: d.Addr, slot: d.Slot}
		if k, ok := slotKey(d.Slot); ok {
			ds.storage = true
			ds.key = k
			ds.new, _ = unhexStr(d.New)
		}
		out = append(out, ds)
	}
	return out
}

// ---------------------------------------------------------------------------
// afterCall: evaluate every oracle on one executed call
// ---------------------------------------------------------------------------

func (c *Checker) afterCall(x *callCtx) {
	c.checkTotality(x) // C11
	c.checkFault(x)    // C17
	ok := x.res.Status == "ok"
	if ok {
		c.checkGas(x)    // C06
		c.checkCharge(x) // C16
		x.emits = emittedMessages(c.w, x.call, x.res)
		c.checkEmittedData(x) // C10 (emitted data parses)
		c.checkAttachedCallHandedOver(x)
	}
	c.bookkeepMessages(x) // C01 (acceptance / refund)
	// C10: the hand-over message the library itself emitted continues the operation on the next holder's shard: nothing in
	// the destination's state can legitimately refuse it (no gate, no payability, no hash) — unless a fault was injected
	if !ok && x.msg != nil && x.ann.kind == "deliver" && x.msg.Fn == FnHandOver && x.fault < 0 && strings.HasPrefix(x.res.Status, "err:") {
		c.report(x, "C10", "the create-role hand-over message emitted for %x (arguments %x) is refused on its destination shard: %s", x.msg.Dest, x.msg.Args, x.res.Status)
	}
	// C10: the two halves of a cross-shard transfer agree. A message the sender half emitted (delivered as it was emitted)
	// can be refused on its destination shard for what the DESTINATION's state says - frozen, paused, not payable, another
	// hash under the same nonce - or because the payable oracle fails; never as malformed or unauthorised
	if !ok && x.msg != nil && x.ann.kind == "deliver" && IsTransferFn(x.call.Fn) && x.fault < 0 && strings.HasPrefix(x.res.Status, "err:") {
		legit := map[string]bool{"err:ESDTIsFrozenForAccount": true, "err:ESDTTokenIsPaused": true, "err:AccountNotPayable": true,
			"err:WrongNFTOnDestination": true, "err:Injected": true}
		if !legit[x.res.Status] && !(x.res.Status == "err:Other" && c.PayableAnswer(x.msg.Dest) == "err") {
			c.report(x, "C10", "the %s message the sender half emitted for %x (arguments %x) is refused on its destination shard as %s: the two halves of the transfer disagree", x.call.Fn, x.msg.Dest, x.msg.Args, x.res.Status)
		}
	}
	// C08 / C10: "wrong NFT on destination" is the answer to ONE situation - the destination holds the same (token, nonce)
	// with another hash (or holds metadata while nothing comes with the item); mutable metadata (attributes, URIs) and
	// an empty hash on both sides are not a reason to refuse what the sender half has already debited
	if x.res.Status == "err:WrongNFTOnDestination" && x.fault < 0 && (x.call.Fn == FnNFTTransfer || x.call.Fn == FnMultiTransfer) {
		if sh := shapeOf(c.w, x.call); sh.ok && c.w.Present(x.call.Shard, sh.dest) {
			mismatch := false
			for _, it := range sh.items {
				if it.nonce == 0 {
					continue
				}
				had := c.cache.decode(x.pre.value(sh.dest, it.key())).Meta()
				var incoming *esdt.MetaData
				if it.payload != nil {
					incoming = it.payload.Meta()
				} else {
					incoming = c.cache.decode(x.pre.value(x.call.Caller, it.key())).Meta()
				}
				if had != nil && (incoming == nil || !bytes.Equal(had.Hash, incoming.Hash)) {
					mismatch = true
				}
			}
			if !mismatch {
				for _, p := range []string{"C08", "C10"} {
					c.report(x, p, "%s to %x is refused as 'wrong NFT on destination' although no item meets a holding of the same nonce with another hash", x.call.Fn, sh.dest)
				}
			}
		}
	}
	if !ok {
		if strings.HasPrefix(x.res.Status, "shape:") {
			c.expected = c.actualTotals() // no rollback happened; resynchronise
		}
		return
	}
	diffs := diffSlots(x.res)
	c.learnTokens(x)
	c.checkSupply(x)              // C01 / C02
	c.checkGates(x, diffs)        // C04
	c.checkFootprint(x, diffs)    // C05
	c.checkAuthority(x, diffs)    // C03
	c.checkDestinations(x, diffs) // C09
	c.checkNonces(x)              // C07
	c.checkMetadata(x)            // C08
	c.checkParserAgreement(x)     // C10 (parser = ledger)
	c.checkWellFormed(x)          // C15
}

func (c *Checker) report(x *callCtx, prop, format string, a ...interface{}) {
	c.Report(prop, x.line, fmt.Sprintf(format, a...))
}

// ---------------------------------------------------------------------------
// C11 totality: no panic, result shape respected
// ---------------------------------------------------------------------------

func (c *Checker) checkTotality(x *callCtx) {
	st := x.res.Status
	if st == "panic" {
		c.report(x, "C11", "panic: %v", x.res.Panic)
	} else if strings.HasPrefix(st, "shape:") {
		c.report(x, "C11", "result shape violated: %s", st)
	} else if st == "ok" && x.res.Out != nil && x.res.Out.ReturnCode != vmcommon.Ok {
		c.report(x, "C11", "ok with return code %d", x.res.Out.ReturnCode)
	}
}

// ---------------------------------------------------------------------------
// C17 a failing dependency is never reported as success
// ---------------------------------------------------------------------------

func (c *Checker) checkFault(x *callCtx) {
	if x.fault >= 0 && len(x.res.Deps) > x.fault && x.res.Status == "ok" {
		c.report(x, "C17", "dependency call #%d (%c) failed by injection, yet the call returned ok (deps=%s)", x.fault, x.res.Deps[x.fault], x.res.Deps)
	}
}

func (x *callCtx) faultHit() bool { return x.fault >= 0 && len(x.res.Deps) > x.fault }

// ---------------------------------------------------------------------------
// C06 no gas creation
// ---------------------------------------------------------------------------

func (c *Checker) checkGas(x *callCtx) {
	sum := new(big.Int).SetUint64(x.res.Out.GasRemaining)
	for _, oa := range x.res.Out.OutputAccounts {
		if oa == nil {
			continue
		}
		for _, t := range oa.OutputTransfers {
			sum.Add(sum, new(big.Int).SetUint64(t.GasLimit))
		}
	}
	if sum.Cmp(new(big.Int).SetUint64(x.call.Gas)) > 0 {
		c.report(x, "C06", "gas created: remaining + forwarded = %s > provided %d", sum, x.call.Gas)
	}
}

// ---------------------------------------------------------------------------
// C10 (first half): emitted data parses to what was encoded
// ---------------------------------------------------------------------------

func (c *Checker) checkEmittedData(x *callCtx) {
	sh := shapeOf(c.w, x.call)
	for _, oa := range sortedOutputAccounts(x.res.Out) {
		for _, t := range oa.OutputTransfers {
			if len(t.Data) == 0 {
				continue
			}
			local := c.w.Present(x.call.Shard, oa.Address)
			if IsTransferFn(x.call.Fn) && local {
				// attached call handed to a local contract: the user's function name is re-serialised
				// unescaped, so names that are empty or contain '@' are outside the property (C12 carve-out)
				if !sh.ok || !sh.attached || sh.attFn == "" || strings.Contains(sh.attFn, "@") {
					continue
				}
				fn, args, err := callParser.ParseData(string(t.Data))
				if err != nil {
					c.report(x, "C10", "emitted data %q does not parse: %v", t.Data, err)
					c.report(x, "C12", "the built-in function's own encoder emitted %q, which the call-arguments parser rejects: %v", t.Data, err)
					continue
				}
				if fn != sh.attFn || !sameArgs(args, sh.attArgs) {
					c.report(x, "C10", "emitted data %q parses to (%q, %x), the call attached (%q, %x)", t.Data, fn, args, sh.attFn, sh.attArgs)
				}
				continue
			}
			fn, args, err := callParser.ParseData(string(t.Data))
			if err != nil {
				c.report(x, "C10", "emitted data %q does not parse: %v", t.Data, err)
				c.report(x, "C12", "the built-in function's own encoder emitted %q, which the call-arguments parser rejects: %v", t.Data, err)
			} else if !builtinSet[fn] {
				c.report(x, "C10", "emitted data %q names %q, not a built-in function", t.Data, fn)
			} else if IsTransferFn(x.call.Fn) && sh.ok {
				// the cross-shard message continues the transfer: same function, same destination, and the
				// attached call of the input is forwarded unchanged
				ms := shapeOfArgs(fn, t.SenderAddress, oa.Address, args, false)
				switch {
				case fn != x.call.Fn || !bytes.Equal(oa.Address, sh.dest):
					c.report(x, "C10", "emitted message %s to %x does not continue %s to %x", fn, oa.Address, x.call.Fn, sh.dest)
				case !ms.ok:
					c.report(x, "C10", "emitted message %q is not a well-formed %s", t.Data, fn)
				case ms.attached != sh.attached || ms.attFn != sh.attFn || !sameArgs(ms.attArgs, sh.attArgs):
					c.report(x, "C10", "the attached call (%q,%x) of the input is not the one in the emitted message (%q,%x)", sh.attFn, sh.attArgs, ms.attFn, ms.attArgs)
				}
			}
		}
	}
}

// checkAttachedCallHandedOver (C10): when the transfer credits a contract that lives on the executing shard and the input
// carries an attached call - what the ESDT transfer parser reports as CallFunction / CallArgs - the output hands that call
// to the contract (an output transfer to it with data), whatever the call type and on whichever half of the transfer.
func (c *Checker) checkAttachedCallHandedOver(x *callCtx) {
	if !IsTransferFn(x.call.Fn) {
		return
	}
	sh := shapeOf(c.w, x.call)
	if !sh.ok || !sh.attached || !IsContract(sh.dest) || !c.w.Present(x.call.Shard, sh.dest) {
		return
	}
	for _, oa := range sortedOutputAccounts(x.res.Out) {
		if !bytes.Equal(oa.Address, sh.dest) {
			continue
		}
		if len(oa.OutputTransfers) > 0 { // an empty function name is handed over as empty data
			return
		}
	}
	c.report(x, "C10", "the transfer credits the contract %x on its own shard and carries the attached call (%q, %x) - which the transfer parser reports - but no output transfer hands the call to the contract (call type %d)",
		sh.dest, sh.attFn, sh.attArgs, x.call.CallType)
}

func sameArgs(a, b [][]byte) bool {
	if len(a) != len(b) {
		return false
	}
	for i := range a {
		if !bytes.Equal(a[i], b[i]) {
			return false
		}
	}
	return true
}

// ---------------------------------------------------------------------------
// messages: delivery / refund bookkeeping and C01 acceptance
// ---------------------------------------------------------------------------

func (c *Checker) bookkeepMessages(x *callCtx) {
	ok := x.res.Status == "ok"
	if m := x.msg; m != nil {
		switch x.ann.kind {
		case "deliver":
			switch {
			case ok:
				m.State = MsgDone
			case x.faultHit():
				// an injected fault is an artefact of the test: the message stays deliverable
			case m.IsTransfer():
				m.State = MsgRefundPending
				if why, legit := c.legitReject(x, m); !legit {
					c.report(x, "C01", "delivery of message %d rejected (%s) although the destination is not frozen, the token not paused and the account payable%s", m.ID, x.res.Status, why)
				}
			default:
				m.State = MsgDone // dropped
			}
		case "refund":
			switch {
			case ok:
				m.State = MsgDone
			case x.faultHit():
			default:
				if !c.msgUndisciplined(m) {
					c.report(x, "C01", "refund of message %d rejected (%s): the sender is never restored", m.ID, x.res.Status)
				}
				m.State = MsgDone
				for k, v := range m.Carried { // the tokens are lost; keep one finding, not a cascade
					addTo(c.expected, k, new(big.Int).Neg(v))
				}
			}
		}
	}
	if ok {
		for _, m := range x.emits {
			m.ID = len(c.msgs)
			m.EmittedAt = x.idx
			c.msgs = append(c.msgs, m)
		}
	}
}

// msgUndisciplined: the message carries a token on which single-creator discipline was broken (two
// creators can mint one nonce with two hashes; then even a refund may meet "another NFT" at home).
func (c *Checker) msgUndisciplined(m *Msg) bool {
	sh := shapeOfArgs(m.Fn, m.Caller, m.Dest, m.Args, false)
	for _, it := range sh.items {
		if c.undisciplined[string(it.tok)] {
			return true
		}
	}
	return false
}

// legitReject decides whether the failed delivery of a transfer message is one the property allows:
// destination entry frozen, token paused on that shard, account not payable (and no bypass), another
// hash at the destination, or a destination entry that is not a balance of that kind / is undecodable
// (only possible for raw-written state).
func (c *Checker) legitReject(x *callCtx, m *Msg) (string, bool) {
	sh := shapeOfArgs(m.Fn, m.Caller, m.Dest, m.Args, false)
	if !sh.ok {
		return " (malformed message)", false
	}
	if mustVerifyPayable(x.call, sh.minArgs) && c.PayableAnswer(m.Dest) != "yes" {
		return "", true
	}
	var sys map[string][]byte
	if s := x.pre[string(SystemAccount)]; s != nil {
		sys = s.storage
	}
	for _, it := range sh.items {
		tk := EsdtPrefix + string(it.tok)
		if pausedIn(sys, tk) {
			return "", true
		}
		if it.payload == nil { // fungible item
			e := c.cache.decode(x.pre.value(m.Dest, tk))
			if e.Err || e.Frozen || e.Tok.Type != 0 {
				return "", true
			}
			continue
		}
		if pausedIn(sys, it.key()) {
			return "", true
		}
		if it.payload.Err {
			return " (payload undecodable)", false
		}
		if it.payload.Frozen {
			return "", true
		}
		e := c.cache.decode(x.pre.value(m.Dest, it.key()))
		if e.Err || e.Frozen {
			return "", true
		}
		if em, pm := e.Meta(), it.payload.Meta(); em != nil && (pm == nil || !bytes.Equal(em.Hash, pm.Hash)) {
			return "", true // another NFT under the same key
		}
	}
	return "", false
}

// ---------------------------------------------------------------------------
// ghost knowledge about tokens and discipline
// ---------------------------------------------------------------------------

func argHas(args [][]byte, s string) bool {
	for _, a := range args {
		if string(a) == s {
			return true
		}
	}
	return false
}

func (c *Checker) learnTokens(x *callCtx) {
	call := x.call
	if len(call.Args) == 0 {
		return
	}
	tok := string(call.Args[0])
	switch call.Fn {
	case FnSetRole:
		if WellFormedTokenID(call.Args[0]) {
			c.known[tok] = true
		}
		if argHas(call.Args[1:], RoleNFTCreate) && (c.creators(tok) > 1 || c.counterElsewhere(call.Rcv, tok)) {
			// a second creator — or the role given to an account while the token's counter sits with another one (the
			// system contract took the role back from its holder, which the real one refuses to do, and moved it by
			// hand instead of by a hand-over)
			c.undisciplined[tok] = true
		}
	case FnUnSetRole:
		// taking the create role back leaves the counter with the account: the token stays disciplined as long as
		// the role only ever returns to the account that keeps the counter (judged at the ESDTSetRole above)
	case FnLocalMint, FnNFTCreate:
		if WellFormedTokenID(call.Args[0]) {
			c.known[tok] = true
		}
	case FnHandOver:
		if x.isSys {
			// E5: a hand-over is issued to X only when X is THE holder (judged on the pre-state, so that a
			// library that fails to strip the old holder is not mistaken for broken discipline)
			roles, _ := DecodeRoles(x.pre.value(call.Rcv, RolePrefix+tok))
			if !hasRole(roles, RoleNFTCreate) || c.creatorsBefore(x, tok) > 1 {
				c.undisciplined[tok] = true
			}
		}
	}
}

// counterElsewhere: some account other than addr, on any shard, keeps a non-zero create counter of tok.
func (c *Checker) counterElsewhere(addr []byte, tok string) bool {
	for s := 0; s < c.w.NumShards(); s++ {
		for _, a := range c.w.Accounts(s) {
			if !bytes.Equal(a.Address(), addr) && U64(a.Get(NoncePrefix+tok)) > 0 {
				return true
			}
		}
	}
	return false
}

// creatorsBefore counts the create-role holders of tok in the state before the call x (executing
// shard from the snapshot, the other shards are unchanged) plus the hand-overs in flight before it.
func (c *Checker) creatorsBefore(x *callCtx, tok string) int {
	n := 0
	for s := 0; s < c.w.NumShards(); s++ {
		if s == x.call.Shard {
			for _, a := range x.pre {
				if roles, ok := DecodeRoles(a.storage[RolePrefix+tok]); ok && hasRole(roles, RoleNFTCreate) {
					n++
				}
			}
			continue
		}
		for _, a := range c.w.Accounts(s) {
			if roles, ok := DecodeRoles(a.Get(RolePrefix + tok)); ok && hasRole(roles, RoleNFTCreate) {
				n++
			}
		}
	}
	for _, m := range c.msgs {
		if m.EmittedAt < x.idx && m.Fn == FnHandOver && len(m.Args) > 0 && string(m.Args[0]) == tok &&
			(m.State == MsgPending || (x.msg == m)) {
			n++
		}
	}
	return n
}

// ---------------------------------------------------------------------------
// C01 / C02 supply and conservation
// ---------------------------------------------------------------------------

func (c *Checker) checkSupply(x *callCtx) {
	call := x.call
	a := call.Args
	neg := func(v *big.Int) *big.Int { return new(big.Int).Neg(v) }
	switch call.Fn {
	case FnLocalMint:
		if len(a) >= 2 {
			addTo(c.expected, TokenKey(a[0], 0), Big(a[1]))
		}
	case FnLocalBurn, FnBurn:
		if len(a) >= 2 {
			addTo(c.expected, TokenKey(a[0], 0), neg(Big(a[1])))
		}
	case FnNFTCreate:
		if len(a) >= 2 && len(x.res.Out.ReturnData) > 0 {
			k := TokenKey(a[0], U64(x.res.Out.ReturnData[0]))
			addTo(c.expected, k, Big(a[1]))
			if c.undisciplined[string(a[0])] {
				// known, accepted: with two creators a create overwrites the creator's own entry at that nonce
				addTo(c.expected, k, neg(c.cache.decode(x.pre.value(call.Caller, k)).Val()))
			}
		}
	case FnNFTAddQty:
		if len(a) >= 3 {
			addTo(c.expected, TokenKey(a[0], U64(a[1])), Big(a[2]))
		}
	case FnNFTBurn:
		if len(a) >= 3 {
			addTo(c.expected, TokenKey(a[0], U64(a[1])), neg(Big(a[2])))
		}
	case FnWipe:
		if len(a) >= 1 && !bytes.Equal(call.Rcv, SystemAccount) {
			k := TokenKey(a[0], 0)
			addTo(c.expected, k, neg(c.cache.decode(x.pre.value(call.Rcv, k)).Val()))
		}
	case FnTransfer:
		// E5: the system contract's own ESDTTransfer is how issued supply enters a shard (it is not the delivery of a
		// message some shard emitted): the world total rises by exactly the amount
		if x.isSys && x.msg == nil && len(a) >= 2 {
			addTo(c.expected, TokenKey(a[0], 0), Big(a[1]))
		}
	}
	// "any operation that would take more than the account holds fails": a successful burn above the pre-state holding
	switch call.Fn {
	case FnLocalBurn, FnBurn:
		if len(a) >= 2 {
			held := c.cache.decode(x.pre.value(call.Caller, TokenKey(a[0], 0))).Val()
			if Big(a[1]).Cmp(held) > 0 {
				c.report(x, "C02", "%s of %s succeeded although account %x held only %s", call.Fn, Big(a[1]), call.Caller, held)
			}
		}
	case FnNFTBurn:
		if len(a) >= 3 {
			held := c.cache.decode(x.pre.value(call.Caller, TokenKey(a[0], U64(a[1])))).Val()
			if Big(a[2]).Cmp(held) > 0 {
				c.report(x, "C02", "%s of %s succeeded although account %x held only %s", call.Fn, Big(a[2]), call.Caller, held)
			}
		}
	}
	actual := c.actualTotals()
	if d := diffTotals(c.expected, actual); d != "" {
		prop := "C02"
		if IsTransferFn(call.Fn) || x.msg != nil {
			prop = "C01"
		}
		c.report(x, prop, "world supply (accounts + in flight) differs from the expected supply: %s", d)
		c.expected = actual
	}
}

// ---------------------------------------------------------------------------
// C04 frozen accounts and paused tokens cannot move funds
// ---------------------------------------------------------------------------

func (c *Checker) checkGates(x *callCtx, diffs []diffSlot) {
	if x.call.RAE {
		return
	}
	fn := x.call.Fn
	frozenExempt := x.isSys && (fn == FnWipe || fn == FnUnFreeze)
	pausedExempt := x.isSys && (fn == FnWipe || fn == FnFreeze || fn == FnUnFreeze || fn == FnUnPause || fn == FnPause)
	var sys map[string][]byte
	if s := x.pre[string(SystemAccount)]; s != nil {
		sys = s.storage
	}
	// an accepted pause / un-pause takes effect where every other function looks: the flag of the token under the ONE
	// system account of the shard the call ran on (whatever spelling of the system address the call was sent to)
	if (fn == FnPause || fn == FnUnPause) && x.isSys && x.res != nil && x.res.Status == "ok" && x.fault < 0 && len(x.call.Args) == 1 {
		key := EsdtPrefix + string(x.call.Args[0])
		after := map[string][]byte{key: sys[key]}
		for _, d := range diffs {
			if d.storage && d.key == key && bytes.Equal(d.addr, SystemAccount) {
				after[key] = d.new
			}
		}
		if pausedIn(after, key) != (fn == FnPause) {
			c.report(x, "C04", "%s of %q was accepted on shard %d (sent to %x), yet the token's pause flag under the system account is %v afterwards",
				fn, x.call.Args[0], x.call.Shard, x.call.Rcv, pausedIn(after, key))
		}
	}
	for _, d := range diffs {
		if !d.storage || !strings.HasPrefix(d.key, EsdtPrefix) || bytes.Equal(d.addr, SystemAccount) || bytes.Equal(d.addr, ESDTSC) {
			continue
		}
		pre := c.cache.decode(x.pre.value(d.addr, d.key))
		post := c.cache.decode(d.new)
		if pre.Frozen && pre.Meta() == nil && !frozenExempt && pre.Val().Cmp(post.Val()) != 0 {
			c.report(x, "C04", "frozen entry %x of account %x changed from %s to %s", d.key, d.addr, pre.Val(), post.Val())
		}
		if pausedExempt {
			continue
		}
		rest := d.key[len(EsdtPrefix):]
		for i := 1; i <= len(rest); i++ {
			if validNonceSuffix(rest[i:]) && pausedIn(sys, EsdtPrefix+rest[:i]) {
				c.report(x, "C04", "token %q is paused on shard %d, yet entry %x of account %x changed", rest[:i], x.call.Shard, d.key, d.addr)
				break
			}
		}
	}
}

// ---------------------------------------------------------------------------
// C05 protected namespace, bounded footprint
// ---------------------------------------------------------------------------

func (c *Checker) checkFootprint(x *callCtx, diffs []diffSlot) {
	call := x.call
	if call.Fn == FnSaveKeyValue {
		c.checkSaveKeyValue(x, diffs)
		return
	}
	acctFn := call.Fn == FnChangeOwner || call.Fn == FnClaim || call.Fn == FnSetUserName
	argSet := map[string]bool{}
	for _, a := range call.Args {
		argSet[string(a)] = true
	}
	// the nonces the call names (minimal big-endian form, as in the key): a numeric argument read the way the library
	// reads it (low 64 bits), the metadata nonce of an argument that is an encoded token (the payload of a destination-side
	// transfer), the nonce an NFT create returns
	nonceSet := map[string]bool{}
	for _, a := range call.Args {
		nonceSet[string(NonceBytes(U64(a)))] = true
		if len(a) > 0 {
			if ti := DecodeToken(a); !ti.Err && ti.Tok.TokenMetaData != nil {
				nonceSet[string(NonceBytes(ti.Tok.TokenMetaData.Nonce))] = true
			}
		}
	}
	if call.Fn == FnNFTCreate && x.res != nil && x.res.Out != nil {
		for _, r := range x.res.Out.ReturnData {
			nonceSet[string(NonceBytes(U64(r)))] = true
		}
	}
	// a transfer names (token, nonce) PAIRS: the entries it may touch are exactly those of its items
	var itemKeys map[string]bool
	if IsTransferFn(call.Fn) {
		if sh := shapeOf(c.w, call); sh.ok {
			itemKeys = map[string]bool{}
			for _, it := range sh.items {
				itemKeys[it.key()] = true
			}
		}
	}
	for _, d := range diffs {
		okAcct := bytes.Equal(d.addr, call.Caller) || bytes.Equal(d.addr, call.Rcv) || bytes.Equal(d.addr, SystemAccount) || argSet[string(d.addr)]
		if !okAcct {
			c.report(x, "C05", "account %x outside the footprint changed (slot %s)", d.addr, d.slot)
			continue
		}
		// an execution changes accounts of ITS shard only (the system account exists on every shard)
		if !bytes.Equal(d.addr, SystemAccount) && !c.w.Present(call.Shard, d.addr) {
			c.report(x, "C05", "account %x does not live on shard %d, yet the call executed there changed it (slot %s)", d.addr, call.Shard, d.slot)
			continue
		}
		if !d.storage {
			if !acctFn {
				c.report(x, "C05", "%s changed slot %s of account %x", call.Fn, d.slot, d.addr)
			}
			continue
		}
		if itemKeys != nil && strings.HasPrefix(d.key, EsdtPrefix) && !itemKeys[d.key] && !bytes.Equal(d.addr, SystemAccount) {
			c.report(x, "C05", "%s changed the token entry %x of account %x, which is not the entry of any (token, nonce) item of the transfer", call.Fn, d.key, d.addr)
			continue
		}
		if acctFn || !c.keyInFootprint(d.key, argSet, nonceSet) {
			c.report(x, "C05", "storage key %x of account %x is outside the footprint of %s (a token entry must be that of a token id AND a nonce the call names)", d.key, d.addr, call.Fn)
		}
	}
}

// keyInFootprint: token entry / role key / nonce key of a token id that occurs among the arguments.
func (c *Checker) keyInFootprint(key string, argSet, nonceSet map[string]bool) bool {
	switch {
	case strings.HasPrefix(key, RolePrefix):
		return argSet[key[len(RolePrefix):]]
	case strings.HasPrefix(key, NoncePrefix):
		return argSet[key[len(NoncePrefix):]]
	case strings.HasPrefix(key, EsdtPrefix):
		rest := key[len(EsdtPrefix):]
		for i := 0; i <= len(rest); i++ {
			if validNonceSuffix(rest[i:]) && argSet[rest[:i]] && (i == len(rest) || nonceSet[rest[i:]]) {
				return true
			}
		}
	}
	return false
}

func (c *Checker) checkSaveKeyValue(x *callCtx, diffs []diffSlot) {
	call := x.call
	if !bytes.Equal(call.Caller, call.Rcv) || IsContract(call.Caller) {
		c.report(x, "C05", "SaveKeyValue ok although caller != recipient or the caller is a contract")
	}
	if !c.w.Present(call.Shard, call.Caller) {
		c.report(x, "C05", "SaveKeyValue ok although the sender account is absent")
	}
	// expected result: left fold of put over the pairs, on the caller's storage
	want := map[string][]byte{}
	for i := 0; i+1 < len(call.Args); i += 2 {
		want[string(call.Args[i])] = call.Args[i+1]
	}
	for _, d := range diffs {
		if d.storage && strings.HasPrefix(d.key, Protected) {
			c.report(x, "C05", "SaveKeyValue wrote the protected key %x (%q) of account %x", d.key, d.key, d.addr)
		}
		if !d.storage || !bytes.Equal(d.addr, call.Caller) {
			c.report(x, "C05", "SaveKeyValue changed slot %s of account %x", d.slot, d.addr)
			continue
		}
		v, named := want[d.key]
		if !named || !bytes.Equal(v, d.new) {
			c.report(x, "C05", "SaveKeyValue: key %x now holds %x, the pairs say %x (named=%v)", d.key, d.new, v, named)
		}
	}
	// every pair whose final value differs from the pre-state must show up in the diff
	for k, v := range want {
		if bytes.Equal(x.pre.value(call.Caller, k), v) {
			continue
		}
		if !bytes.Equal(postValue(c.w, call.Shard, call.Caller, k), v) {
			c.report(x, "C05", "SaveKeyValue: key %x should hold %x after the call", k, v)
		}
	}
}

// ---------------------------------------------------------------------------
// C03 privileged operations require the right authority
// ---------------------------------------------------------------------------

var roleFor = map[string]string{
	FnLocalMint: RoleLocalMint, FnLocalBurn: RoleLocalBurn, FnNFTCreate: RoleNFTCreate, FnNFTAddQty: RoleNFTAddQty,
	FnNFTBurn: RoleNFTBurn, FnNFTAddURI: RoleNFTAddURI, FnNFTUpdate: RoleNFTUpdateAtt,
}

var sysOnly = map[string]bool{FnSetRole: true, FnUnSetRole: true, FnFreeze: true, FnUnFreeze: true, FnWipe: true, FnPause: true, FnUnPause: true}

func (c *Checker) checkAuthority(x *callCtx, diffs []diffSlot) {
	call := x.call
	fn := call.Fn
	// role gate
	if role, gated := roleFor[fn]; gated && len(call.Args) > 0 {
		roles, _ := DecodeRoles(x.pre.value(call.Caller, RolePrefix+string(call.Args[0])))
		if !hasRole(roles, role) {
			c.report(x, "C03", "%s ok although the caller's roles for %q are %q (needs %s)", fn, call.Args[0], roles, role)
		}
		if fn == FnNFTCreate && len(call.Args) > 1 && Big(call.Args[1]).Cmp(big.NewInt(1)) > 0 && !hasRole(roles, RoleNFTAddQty) {
			c.report(x, "C03", "ESDTNFTCreate with quantity > 1 ok without %s (roles %q)", RoleNFTAddQty, roles)
		}
	}
	// system only
	if sysOnly[fn] && !x.isSys {
		c.report(x, "C03", "%s ok although the caller is not the ESDT system contract", fn)
	}
	// a role the system contract took back is gone: after a successful ESDTUnSetRole none of the named roles is listed
	// (tokens with deliberately duplicated roles excepted: one occurrence is erased per call)
	if fn == FnUnSetRole && x.isSys && len(call.Args) >= 2 && !c.undisciplined[string(call.Args[0])] {
		if r, ok := DecodeRoles(postValue(c.w, call.Shard, call.Rcv, RolePrefix+string(call.Args[0]))); ok {
			pre, _ := DecodeRoles(x.pre.value(call.Rcv, RolePrefix+string(call.Args[0])))
			dup := map[string]int{}
			for _, p := range pre {
				dup[p]++
			}
			for _, a := range call.Args[1:] {
				if hasRole(r, string(a)) && dup[string(a)] <= 1 {
					c.report(x, "C03", "ESDTUnSetRole of %q for %q succeeded but account %x still lists the role (roles %q)", a, call.Args[0], call.Rcv, r)
				}
			}
		}
	}
	handOverDelivery := x.msg != nil && x.ann.kind == "deliver" && x.msg.Fn == FnHandOver
	// authority moves, it is not copied: after the system contract's hand-over the old holder no longer lists the role
	if fn == FnHandOver && x.isSys && len(call.Args) == 2 && !c.undisciplined[string(call.Args[0])] && !bytes.Equal(call.Args[1], call.Rcv) {
		if r, _ := DecodeRoles(postValue(c.w, call.Shard, call.Rcv, RolePrefix+string(call.Args[0]))); hasRole(r, RoleNFTCreate) {
			c.report(x, "C03", "the create-role hand-over of %q left the role with the old holder %x as well (roles %q)", call.Args[0], call.Rcv, r)
		}
	}
	if fn == FnHandOver && !x.isSys && !handOverDelivery {
		c.report(x, "C03", "create-role hand-over accepted from %x, which is neither the system contract nor the delivery of an emitted hand-over", call.Caller)
	}
	// authority frame
	if !x.isSys && !handOverDelivery {
		for _, d := range diffs {
			if !d.storage {
				continue
			}
			switch {
			case strings.HasPrefix(d.key, RolePrefix):
				c.report(x, "C03", "role list %x of account %x changed by a non-system call", d.key, d.addr)
			case strings.HasPrefix(d.key, NoncePrefix):
				own := fn == FnNFTCreate && bytes.Equal(d.addr, call.Caller) && len(call.Args) > 0 && d.key == NoncePrefix+string(call.Args[0])
				if !own {
					c.report(x, "C03", "nonce counter %x of account %x changed by a non-system call", d.key, d.addr)
				}
			case strings.HasPrefix(d.key, EsdtPrefix) && bytes.Equal(d.addr, SystemAccount):
				c.report(x, "C03", "pause flag %x changed by a non-system call", d.key)
			case strings.HasPrefix(d.key, EsdtPrefix) && !call.RAE:
				pre := c.cache.decode(x.pre.value(d.addr, d.key))
				post := c.cache.decode(d.new)
				if pre.Frozen != post.Frozen {
					c.report(x, "C03", "frozen bit of entry %x of account %x changed by a non-system call", d.key, d.addr)
				}
			}
		}
	}
	// owner / DNS
	switch fn {
	case FnChangeOwner, FnClaim:
		if c.w.Present(call.Shard, call.Rcv) {
			var owner []byte
			if a := x.pre[string(call.Rcv)]; a != nil {
				owner = a.owner
			}
			if !bytes.Equal(owner, call.Caller) {
				c.report(x, "C03", "%s ok although the caller %x is not the owner %x", fn, call.Caller, owner)
			}
		}
	case FnSetUserName:
		if !c.dns[string(call.Caller)] {
			c.report(x, "C03", "SetUserName ok although the caller %x is not a DNS address", call.Caller)
		}
	}
}

// ---------------------------------------------------------------------------
// C09 admissible destinations
// ---------------------------------------------------------------------------

func (c *Checker) checkDestinations(x *callCtx, diffs []diffSlot) {
	call := x.call
	if !IsTransferFn(call.Fn) {
		return
	}
	sh := shapeOf(c.w, call)
	if !sh.ok {
		c.report(x, "C09", "%s ok although its arguments are structurally invalid", call.Fn)
		return
	}
	// a flagged refund goes back to whoever SENT the tokens (a metachain contract's NFT / multi transfer that was refused
	// elsewhere comes home to the metachain node): that is not a transfer "addressed to the metachain"
	if c.w.ShardOf(sh.dest) == vmcommon.MetachainShardId && !(call.RAE && x.ann.kind == "refund") {
		c.report(x, "C09", "%s ok although the destination %x is on the metachain", call.Fn, sh.dest)
	}
	if call.Fn != FnTransfer && sh.senderForm {
		if bytes.Equal(sh.dest, call.Caller) {
			c.report(x, "C09", "%s to self accepted", call.Fn)
		}
		if len(sh.dest) != len(call.Caller) {
			c.report(x, "C09", "%s ok although the destination %x has a wrong length", call.Fn, sh.dest)
		}
	}
	bypass := !mustVerifyPayable(call, sh.minArgs)
	seen := map[string]bool{}
	for _, d := range diffs {
		if !d.storage || !strings.HasPrefix(d.key, EsdtPrefix) || bytes.Equal(d.addr, SystemAccount) {
			continue
		}
		pre := c.cache.decode(x.pre.value(d.addr, d.key))
		post := c.cache.decode(d.new)
		if post.Val().Cmp(pre.Val()) <= 0 || seen[string(d.addr)] {
			continue
		}
		seen[string(d.addr)] = true
		if !bytes.Equal(d.addr, sh.dest) {
			c.report(x, "C09", "account %x was credited (key %x) but the destination is %x", d.addr, d.key, sh.dest)
		}
		if ans := c.PayableAnswer(d.addr); ans != "yes" && !bypass {
			c.report(x, "C09", "account %x was credited although the payable oracle answers %s and nothing bypasses the check", d.addr, ans)
		}
	}
}

// ---------------------------------------------------------------------------
// C07 NFT nonces unique and increasing
// ---------------------------------------------------------------------------

func (c *Checker) checkNonces(x *callCtx) {
	call := x.call
	if call.Fn == FnHandOver {
		c.checkHandOver(x)
		return
	}
	if call.Fn != FnNFTCreate || len(call.Args) == 0 {
		return
	}
	if len(x.res.Out.ReturnData) != 1 {
		c.report(x, "C07", "ESDTNFTCreate returned %d data items", len(x.res.Out.ReturnData))
		return
	}
	tok := string(call.Args[0])
	n := U64(x.res.Out.ReturnData[0])
	if n == 0 {
		c.report(x, "C07", "ESDTNFTCreate returned nonce 0")
	}
	if !c.undisciplined[tok] {
		if c.issued[tok][n] {
			c.report(x, "C07", "nonce %d of token %q issued twice", n, tok)
		}
	}
	if c.issued[tok] == nil {
		c.issued[tok] = map[uint64]bool{}
	}
	c.issued[tok][n] = true
	if stored := U64(postValue(c.w, call.Shard, call.Caller, NoncePrefix+tok)); stored != n {
		c.report(x, "C07", "after creating nonce %d the creator's counter holds %d", n, stored)
	}
	if prev := U64(x.pre.value(call.Caller, NoncePrefix+tok)); n != prev+1 {
		c.report(x, "C07", "returned nonce %d is not the stored counter %d + 1", n, prev)
	}
}

// checkHandOver (C07, handover_moves): the current-owner step zeroes the old holder's counter and
// removes its create role; the new holder (directly when local, through the emitted message when
// remote) gets the role and exactly the old counter; the delivery installs both.
func (c *Checker) checkHandOver(x *callCtx) {
	call := x.call
	if len(call.Args) != 2 {
		return
	}
	tok := string(call.Args[0])
	if c.undisciplined[tok] {
		return // duplicate roles / several creators were installed on purpose
	}
	rolesAt := func(addr []byte) []string {
		r, _ := DecodeRoles(postValue(c.w, call.Shard, addr, RolePrefix+tok))
		return r
	}
	counterAt := func(addr []byte) uint64 { return U64(postValue(c.w, call.Shard, addr, NoncePrefix+tok)) }
	if !x.isSys {
		// next-owner side: role and the carried counter are installed
		if !hasRole(rolesAt(call.Rcv), RoleNFTCreate) || counterAt(call.Rcv) != U64(call.Args[1]) {
			c.report(x, "C07", "hand-over delivery did not install the create role and counter %d (roles %q, counter %d)", U64(call.Args[1]), rolesAt(call.Rcv), counterAt(call.Rcv))
		}
		return
	}
	next := call.Args[1]
	if bytes.Equal(next, call.Rcv) {
		return // handing over to oneself changes nothing
	}
	old := U64(x.pre.value(call.Rcv, NoncePrefix+tok))
	if hasRole(rolesAt(call.Rcv), RoleNFTCreate) || counterAt(call.Rcv) != 0 {
		c.report(x, "C07", "after the hand-over the old holder still has the create role or a counter (roles %q, counter %d)", rolesAt(call.Rcv), counterAt(call.Rcv))
	}
	if c.w.Present(call.Shard, next) {
		if !hasRole(rolesAt(next), RoleNFTCreate) || counterAt(next) != old {
			c.report(x, "C07", "same-shard hand-over: the new holder has roles %q and counter %d, expected the create role and counter %d", rolesAt(next), counterAt(next), old)
		}
		return
	}
	if int64(c.w.ShardOf(next)) < int64(c.w.NumShards()) {
		found := false
		for _, m := range x.emits {
			if m.Fn == FnHandOver && bytes.Equal(m.Dest, next) && len(m.Args) == 2 && string(m.Args[0]) == tok && U64(m.Args[1]) == old {
				found = true
			}
		}
		if !found {
			c.report(x, "C07", "cross-shard hand-over emitted no message carrying token %q and counter %d to %x", tok, old, next)
		}
	}
}

// ---------------------------------------------------------------------------
// C08 metadata travels intact
// ---------------------------------------------------------------------------

func eqB(a, b []byte) bool { return bytes.Equal(a, b) }

// metaDiff compares two metadata records field by field ("" when equal).
func metaDiff(a, b *esdt.MetaData) string {
	if a == nil || b == nil {
		if a == nil && b == nil {
			return ""
		}
		return "one side has no metadata"
	}
	switch {
	case a.Nonce != b.Nonce:
		return fmt.Sprintf("nonce %d vs %d", a.Nonce, b.Nonce)
	case !eqB(a.Name, b.Name):
		return fmt.Sprintf("name %x vs %x", a.Name, b.Name)
	case !eqB(a.Creator, b.Creator):
		return fmt.Sprintf("creator %x vs %x", a.Creator, b.Creator)
	case a.Royalties != b.Royalties:
		return fmt.Sprintf("royalties %d vs %d", a.Royalties, b.Royalties)
	case !eqB(a.Hash, b.Hash):
		return fmt.Sprintf("hash %x vs %x", a.Hash, b.Hash)
	case !eqB(a.Attributes, b.Attributes):
		return fmt.Sprintf("attributes %x vs %x", a.Attributes, b.Attributes)
	case !sameArgs(a.URIs, b.URIs):
		return fmt.Sprintf("URIs %x vs %x", a.URIs, b.URIs)
	}
	return ""
}

func (c *Checker) checkMetadata(x *callCtx) {
	call := x.call
	a := call.Args
	switch call.Fn {
	case FnNFTTransfer, FnMultiTransfer:
		sh := shapeOf(c.w, call)
		if !sh.ok {
			return
		}
		// hash_mismatch_rejected: nothing may be accepted onto a holding of the same nonce with another hash
		for _, it := range sh.items {
			if it.nonce == 0 || !c.w.Present(call.Shard, sh.dest) {
				continue
			}
			had := c.cache.decode(x.pre.value(sh.dest, it.key())).Meta()
			var incoming *esdt.MetaData
			if it.payload != nil {
				incoming = it.payload.Meta()
			} else {
				incoming = c.cache.decode(x.pre.value(call.Caller, it.key())).Meta()
			}
			if had != nil && incoming != nil && !bytes.Equal(had.Hash, incoming.Hash) {
				c.report(x, "C08", "(%q,%d) with hash %x was accepted onto a holding of the same nonce with hash %x", it.tok, it.nonce, incoming.Hash, had.Hash)
			}
		}
		if !sh.senderForm {
			// destination side: the stored metadata is the payload's
			for _, it := range sh.items {
				if it.payload == nil || it.qty.Sign() == 0 {
					continue // fungible item, or quantity 0 (accepted by the library, stores nothing)
				}
				got := c.cache.decode(postValue(c.w, call.Shard, sh.dest, it.key())).Meta()
				if d := metaDiff(it.payload.Meta(), got); d != "" {
					c.report(x, "C08", "metadata stored at the destination differs from the payload for (%q,%d): %s", it.tok, it.nonce, d)
				}
			}
			return
		}
		local := c.w.Present(call.Shard, sh.dest)
		var msgShape *xferShape
		if !local && len(x.emits) == 1 {
			m := x.emits[0]
			s := shapeOfArgs(m.Fn, m.Caller, m.Dest, m.Args, false)
			if s.ok && len(s.items) == len(sh.items) {
				msgShape = &s
			}
		}
		for i, it := range sh.items {
			if it.nonce == 0 || it.qty.Sign() == 0 {
				continue // fungible item, or quantity 0 (accepted by the library, moves nothing)
			}
			src := c.cache.decode(x.pre.value(call.Caller, it.key())).Meta()
			if local {
				got := c.cache.decode(postValue(c.w, call.Shard, sh.dest, it.key())).Meta()
				if d := metaDiff(src, got); d != "" {
					c.report(x, "C08", "metadata at the destination differs from the sender's for (%q,%d): %s", it.tok, it.nonce, d)
				}
			} else if msgShape != nil {
				if p := msgShape.items[i].payload; p != nil {
					if d := metaDiff(src, p.Meta()); d != "" {
						c.report(x, "C08", "metadata in the emitted payload differs from the sender's for (%q,%d): %s", it.tok, it.nonce, d)
					}
				} else {
					c.report(x, "C08", "emitted message carries no payload for NFT item (%q,%d)", it.tok, it.nonce)
				}
			}
			// what stays with the sender keeps its metadata
			if rest := c.cache.decode(postValue(c.w, call.Shard, call.Caller, it.key())); rest.Meta() != nil {
				if d := metaDiff(src, rest.Meta()); d != "" {
					c.report(x, "C08", "metadata of the sender's remaining (%q,%d) changed: %s", it.tok, it.nonce, d)
				}
			}
		}
	case FnNFTAddURI, FnNFTUpdate:
		if len(a) < 3 {
			return
		}
		key := TokenKey(a[0], U64(a[1]))
		pre := c.cache.decode(x.pre.value(call.Caller, key))
		post := c.cache.decode(postValue(c.w, call.Shard, call.Caller, key))
		pm, qm := pre.Meta(), post.Meta()
		if pm == nil || qm == nil || pre.Err || post.Err {
			c.report(x, "C08", "%s ok on an entry without metadata", call.Fn)
			return
		}
		want := *pm
		if call.Fn == FnNFTAddURI {
			want.URIs = append(append([][]byte{}, pm.URIs...), a[2:]...)
		} else {
			want.Attributes = a[2]
		}
		if d := metaDiff(&want, qm); d != "" {
			c.report(x, "C08", "%s changed more than it may: %s", call.Fn, d)
		}
		if pre.Val().Cmp(post.Val()) != 0 || pre.Tok.Type != post.Tok.Type || !eqB(pre.Tok.Properties, post.Tok.Properties) || !eqB(pre.Tok.Reserved, post.Tok.Reserved) {
			c.report(x, "C08", "%s changed value / type / properties / reserved of the entry", call.Fn)
		}
	case FnNFTCreate:
		if len(a) < 7 || len(x.res.Out.ReturnData) != 1 {
			return
		}
		n := U64(x.res.Out.ReturnData[0])
		got := c.cache.decode(postValue(c.w, call.Shard, call.Caller, TokenKey(a[0], n)))
		roy := uint32(U64(a[3]))
		want := &esdt.MetaData{Nonce: n, Name: a[2], Creator: call.Caller, Royalties: roy, Hash: a[4], Attributes: a[5], URIs: a[6:]}
		if d := metaDiff(want, got.Meta()); d != "" {
			c.report(x, "C08", "ESDTNFTCreate recorded other metadata than given: %s", d)
		}
		if roy > 10000 {
			c.report(x, "C08", "ESDTNFTCreate recorded royalties %d > 10000", roy)
		}
	}
}

// ---------------------------------------------------------------------------
// C10 (second half): the ESDT transfer parser agrees with the ledger
// ---------------------------------------------------------------------------

func (c *Checker) checkParserAgreement(x *callCtx) {
	call := x.call
	if !IsTransferFn(call.Fn) {
		return
	}
	sh := shapeOf(c.w, call)
	if !sh.ok {
		return
	}
	var res *vmcommon.ParsedESDTTransfers
	var err error
	func() {
		defer func() {
			if r := recover(); r != nil {
				err = fmt.Errorf("panic: %v", r)
			}
		}()
		res, err = esdtParser.ParseESDTTransfers(call.Caller, call.Rcv, call.Fn, call.Args)
	}()
	if err != nil || res == nil {
		c.report(x, "C10", "the ledger accepted the call, the ESDT transfer parser rejects it: %v", err)
		return
	}
	if !bytes.Equal(res.RcvAddr, sh.dest) {
		c.report(x, "C10", "parser receiver %x, ledger destination %x", res.RcvAddr, sh.dest)
	}
	if res.CallFunction != sh.attFn || !sameArgs(res.CallArgs, sh.attArgs) {
		c.report(x, "C10", "parser attached call (%q,%x), ledger forwards (%q,%x)", res.CallFunction, res.CallArgs, sh.attFn, sh.attArgs)
	}
	// per storage key: what the parser reports vs what the ledger moved
	parsed := map[string]*big.Int{}
	for _, t := range res.ESDTTransfers {
		if t == nil || t.ESDTValue == nil {
			c.report(x, "C10", "parser returned a nil transfer / value")
			return
		}
		addTo(parsed, TokenKey(t.ESDTTokenName, t.ESDTTokenNonce), t.ESDTValue)
	}
	if call.Fn == FnTransfer && bytes.Equal(call.Caller, call.Rcv) {
		return // transfer to self: debit and credit cancel
	}
	acct := call.Rcv
	if sh.senderForm {
		acct = call.Caller
	}
	if !c.w.Present(call.Shard, acct) {
		return // neither side lives here (not a charging / crediting execution)
	}
	moved := map[string]*big.Int{}
	for _, d := range x.res.Diff {
		k, ok := slotKey(d.Slot)
		if !ok || !bytes.Equal(d.Addr, acct) || !strings.HasPrefix(k, EsdtPrefix) {
			continue
		}
		nb, _ := unhexStr(d.New)
		delta := new(big.Int).Sub(c.cache.decode(nb).Val(), c.cache.decode(x.pre.value(acct, k)).Val())
		if sh.senderForm {
			delta.Neg(delta)
		}
		addTo(moved, k, delta)
	}
	if d := diffTotals(parsed, moved); d != "" {
		side := "credited to the recipient"
		if sh.senderForm {
			side = "debited from the caller"
		}
		c.report(x, "C10", "parser report differs from what the ledger %s: %s", side, d)
	}
}

// ---------------------------------------------------------------------------
// C15 well-formed token state (scan of the executing shard)
// ---------------------------------------------------------------------------

func (c *Checker) checkWellFormed(x *callCtx) {
	shard := x.call.Shard
	rawSlots := c.raw[shard]
	dupOK := c.profile == "authority" || c.profile == "adversarial"
	for _, a := range c.w.Accounts(shard) {
		addr := a.Address()
		isSys := bytes.Equal(addr, SystemAccount)
		a.ForEach(func(k string, v []byte) {
			if !strings.HasPrefix(k, Protected) {
				return
			}
			if rv, ok := rawSlots[string(addr)+"\x00"+k]; ok && bytes.Equal(rv, v) {
				return // still the raw-written value: the test author's responsibility
			}
			switch {
			case strings.HasPrefix(k, RolePrefix):
				roles, ok := DecodeRoles(v)
				if !ok {
					c.report(x, "C15", "role list %x of account %x does not decode", k, addr)
					return
				}
				if !dupOK {
					seen := map[string]bool{}
					for _, r := range roles {
						if seen[r] {
							c.report(x, "C15", "role list %x of account %x holds %q twice", k, addr, r)
						}
						seen[r] = true
					}
				}
				// the counter held with the create role is never below a nonce ever issued for the token
				// (single-creator discipline; an undisciplined token id is the test author's responsibility)
				tok := strings.TrimPrefix(k, RolePrefix)
				if !dupOK && !c.undisciplined[tok] && hasRole(roles, RoleNFTCreate) {
					var top uint64
					for n := range c.issued[tok] {
						if n > top {
							top = n
						}
					}
					if cnt := U64(a.Value([]byte(NoncePrefix + tok))); cnt < top {
						c.report(x, "C15", "account %x holds the create role of %q with counter %d below the issued nonce %d", addr, tok, cnt, top)
					}
				}
			case strings.HasPrefix(k, EsdtPrefix) && !isSys:
				c.checkEntry(x, addr, k, v)
			}
		})
	}
}

func (c *Checker) checkEntry(x *callCtx, addr []byte, k string, v []byte) {
	e := c.cache.decode(v)
	if e.Err {
		c.report(x, "C15", "entry %x of account %x does not decode", k, addr)
		return
	}
	t := e.Tok
	if t.Value == nil {
		c.report(x, "C15", "entry %x of account %x has no value", k, addr)
		return
	}
	if t.Value.Sign() < 0 {
		c.report(x, "C15", "entry %x of account %x has the negative value %s", k, addr, t.Value)
		c.report(x, "C02", "stored balance %x of account %x is negative: %s", k, addr, t.Value) // C02's last clause
	}
	if t.Value.Sign() == 0 && !(t.TokenMetaData == nil && e.Frozen) {
		c.report(x, "C15", "entry %x of account %x has value 0 and is not a frozen-flag carrier", k, addr)
	}
	// key suffix vs metadata nonce, for issued (well-formed) token ids
	rest := k[len(EsdtPrefix):]
	for i := 3; i <= len(rest); i++ {
		if !c.known[rest[:i]] {
			continue
		}
		suffix := rest[i:]
		switch {
		case t.TokenMetaData == nil && suffix != "" && t.Value.Sign() == 0 && e.Frozen:
			// the flag carrier of a frozen NFT: the system contract freezes an NFT on an account through the identifier
			// token‖nonce; on an account that holds nothing of it that leaves the zero-balance entry "that remains only
			// to carry a frozen flag" (C15's own words) under the NFT's key - it has no quantity and no metadata to carry
		case t.TokenMetaData == nil && suffix != "":
			c.report(x, "C15", "entry %x of account %x (token %q, nonce suffix %x) has no metadata", k, addr, rest[:i], suffix)
		case t.TokenMetaData != nil && string(NonceBytes(t.TokenMetaData.Nonce)) != suffix:
			c.report(x, "C15", "entry %x of account %x: metadata nonce %d does not match the key suffix %x", k, addr, t.TokenMetaData.Nonce, suffix)
		}
		break
	}
}
