package oracle

import (
	"bytes"
	"math/big"
	"sort"
	"strings"

	vmcommon "github.com/ElrondNetwork/elrond-vm-common"
	"github.com/ElrondNetwork/elrond-vm-common/data/esdt"

	"verifharness/world"
)

// Storage key layouts of the library (spec side literals, not imported from the code under test).
const (
	EsdtPrefix  = "ELRONDesdt"     // + token id (+ minimal big-endian nonce)
	RolePrefix  = "ELRONDroleesdt" // + token id
	NoncePrefix = "ELRONDnonce"    // + token id
	Protected   = "ELROND"
)

// The seven local roles, spec literals.
const (
	RoleLocalMint    = "ESDTRoleLocalMint"
	RoleLocalBurn    = "ESDTRoleLocalBurn"
	RoleNFTCreate    = "ESDTRoleNFTCreate"
	RoleNFTAddQty    = "ESDTRoleNFTAddQuantity"
	RoleNFTBurn      = "ESDTRoleNFTBurn"
	RoleNFTAddURI    = "ESDTRoleNFTAddURI"
	RoleNFTUpdateAtt = "ESDTRoleNFTUpdateAttributes"
)

// AllRoles lists the seven role literals.
var AllRoles = []string{RoleLocalMint, RoleLocalBurn, RoleNFTCreate, RoleNFTAddQty, RoleNFTBurn, RoleNFTAddURI, RoleNFTUpdateAtt}

// Function names (spec literals).
const (
	FnTransfer      = "ESDTTransfer"
	FnNFTTransfer   = "ESDTNFTTransfer"
	FnMultiTransfer = "MultiESDTNFTTransfer"
	FnLocalMint     = "ESDTLocalMint"
	FnLocalBurn     = "ESDTLocalBurn"
	FnBurn          = "ESDTBurn"
	FnNFTCreate     = "ESDTNFTCreate"
	FnNFTAddQty     = "ESDTNFTAddQuantity"
	FnNFTBurn       = "ESDTNFTBurn"
	FnNFTAddURI     = "ESDTNFTAddURI"
	FnNFTUpdate     = "ESDTNFTUpdateAttributes"
	FnHandOver      = "ESDTNFTCreateRoleTransfer"
	FnSetRole       = "ESDTSetRole"
	FnUnSetRole     = "ESDTUnSetRole"
	FnFreeze        = "ESDTFreeze"
	FnUnFreeze      = "ESDTUnFreeze"
	FnWipe          = "ESDTWipe"
	FnPause         = "ESDTPause"
	FnUnPause       = "ESDTUnPause"
	FnSaveKeyValue  = "SaveKeyValue"
	FnChangeOwner   = "ChangeOwnerAddress"
	FnClaim         = "ClaimDeveloperRewards"
	FnSetUserName   = "SetUserName"
)

// AllFunctions is the registry of the 23 built-in functions (sorted).
var AllFunctions = []string{
	FnChangeOwner, FnClaim, FnBurn, FnFreeze, FnLocalBurn, FnLocalMint, FnNFTAddQty, FnNFTAddURI, FnNFTBurn,
	FnNFTCreate, FnHandOver, FnNFTTransfer, FnNFTUpdate, FnPause, FnSetRole, FnTransfer, FnUnFreeze,
	FnUnPause, FnUnSetRole, FnWipe, FnMultiTransfer, FnSaveKeyValue, FnSetUserName,
}

var builtinSet = func() map[string]bool {
	sort.Strings(AllFunctions)
	m := map[string]bool{}
	for _, f := range AllFunctions {
		m[f] = true
	}
	return m
}()

// IsTransferFn tells whether fn is one of the three transfer functions.
func IsTransferFn(fn string) bool {
	return fn == FnTransfer || fn == FnNFTTransfer || fn == FnMultiTransfer
}

var (
	// SystemAccount is the global settings account present on every shard (never a token holder).
	SystemAccount = bytes.Repeat([]byte{0xff}, 32)
	// ESDTSC is the ESDT system contract (metachain).
	ESDTSC = []byte{0, 0, 0, 0, 0, 0, 0, 0, 0, 1, 0, 0, 0, 0, 0, 0, 0, 0, 0, 0, 0, 0, 0, 0, 0, 0, 0, 0, 0, 2, 255, 255}
)

// IsContract is vmcommon.IsSmartContractAddress (the address classifier is not under test here).
func IsContract(a []byte) bool { return vmcommon.IsSmartContractAddress(a) }

// NonceBytes is the minimal big-endian encoding of a nonce (empty for 0).
func NonceBytes(n uint64) []byte { return new(big.Int).SetUint64(n).Bytes() }

// TokenKey is the storage key of (token, nonce).
func TokenKey(tok []byte, nonce uint64) string {
	return EsdtPrefix + string(tok) + string(NonceBytes(nonce))
}

// U64 is the library's reading of a numeric argument as uint64: big-endian, truncated to the low 64 bits.
func U64(b []byte) uint64 { return new(big.Int).SetBytes(b).Uint64() }

// Big reads an argument as an unsigned big integer.
func Big(b []byte) *big.Int { return new(big.Int).SetBytes(b) }

// WellFormedTokenID: TICKER-rrrrrr, ticker 3..10 upper-case alphanumerics, 6 lower-case hex digits.
func WellFormedTokenID(t []byte) bool {
	i := bytes.IndexByte(t, '-')
	if i < 3 || i > 10 || len(t) != i+7 {
		return false
	}
	for _, c := range t[:i] {
		if !(c >= 'A' && c <= 'Z' || c >= '0' && c <= '9') {
			return false
		}
	}
	for _, c := range t[i+1:] {
		if !(c >= '0' && c <= '9' || c >= 'a' && c <= 'f') {
			return false
		}
	}
	return true
}

// ---------------------------------------------------------------------------
// decoded token entries (with a cache: the same bytes are looked at many times)
// ---------------------------------------------------------------------------

// TokInfo is a decoded ESDigitalToken entry.
type TokInfo struct {
	Err    bool // undecodable
	Tok    *esdt.ESDigitalToken
	Frozen bool // Properties has length 2 and bit 0 of byte 0 set
}

// Val is the decoded value, 0 for an absent / undecodable / value-less entry.
func (t *TokInfo) Val() *big.Int {
	if t == nil || t.Err || t.Tok == nil || t.Tok.Value == nil {
		return new(big.Int)
	}
	return t.Tok.Value
}

// Meta is the decoded metadata (nil when none).
func (t *TokInfo) Meta() *esdt.MetaData {
	if t == nil || t.Err || t.Tok == nil {
		return nil
	}
	return t.Tok.TokenMetaData
}

var absentTok = &TokInfo{Tok: &esdt.ESDigitalToken{Value: new(big.Int)}}

type decodeCache struct {
	m map[string]*TokInfo
}

// decode decodes stored bytes with the generated Unmarshal; empty bytes are the absent entry (value 0).
// The result is shared: callers must not modify it.
func (d *decodeCache) decode(b []byte) *TokInfo {
	if len(b) == 0 {
		return absentTok
	}
	if d.m == nil || len(d.m) > 1<<16 {
		d.m = map[string]*TokInfo{}
	}
	if ti, ok := d.m[string(b)]; ok {
		return ti
	}
	ti := DecodeToken(b)
	d.m[string(b)] = ti
	return ti
}

// DecodeToken decodes without cache.
func DecodeToken(b []byte) *TokInfo {
	t := &esdt.ESDigitalToken{}
	if err := t.Unmarshal(b); err != nil {
		return &TokInfo{Err: true}
	}
	return &TokInfo{Tok: t, Frozen: len(t.Properties) == 2 && t.Properties[0]&1 == 1}
}

// DecodeRoles decodes a role list (ok=false when undecodable). Empty bytes are the empty list.
func DecodeRoles(b []byte) ([]string, bool) {
	if len(b) == 0 {
		return nil, true
	}
	r := &esdt.ESDTRoles{}
	if err := r.Unmarshal(b); err != nil {
		return nil, false
	}
	out := make([]string, len(r.Roles))
	for i, x := range r.Roles {
		out[i] = string(x)
	}
	return out, true
}

func hasRole(roles []string, r string) bool {
	for _, x := range roles {
		if x == r {
			return true
		}
	}
	return false
}

// ---------------------------------------------------------------------------
// pre-state snapshot of one shard
// ---------------------------------------------------------------------------

type acctSnap struct {
	storage map[string][]byte
	owner   []byte
	name    []byte
	reward  *big.Int
	balance *big.Int
}

type shardSnap map[string]*acctSnap // by address

func snapshotShard(w *world.World, shard int) shardSnap {
	s := shardSnap{}
	for _, a := range w.Accounts(shard) {
		as := &acctSnap{storage: make(map[string][]byte, a.NumKeys()), owner: a.Owner(), name: a.Name(), reward: a.Reward(), balance: a.Balance()}
		// values are replaced, never mutated in place (world.Account contract), so sharing them is safe
		a.ForEach(func(k string, v []byte) { as.storage[k] = v })
		s[string(a.Address())] = as
	}
	return s
}

func (s shardSnap) value(addr []byte, key string) []byte {
	if a := s[string(addr)]; a != nil {
		return a.storage[key]
	}
	return nil
}

// postValue reads the current value of (shard, addr, key) from the world.
func postValue(w *world.World, shard int, addr []byte, key string) []byte {
	if a := w.Account(shard, addr); a != nil {
		return a.Get(key)
	}
	return nil
}

// pausedIn tells whether the pause flag of tokenKey is set in a system-account storage.
func pausedIn(sys map[string][]byte, tokenKey string) bool {
	v := sys[tokenKey]
	return len(v) == 2 && v[0]&1 == 1
}

// slotKey extracts the storage key from a Diff slot (`k<hex>`), ok=false for owner/name/reward/balance.
func slotKey(slot string) (string, bool) {
	if !strings.HasPrefix(slot, "k") {
		return "", false
	}
	b, ok := unhexStr(slot[1:])
	if !ok {
		return "", false
	}
	return string(b), true
}

func unhexStr(s string) ([]byte, bool) {
	if len(s)%2 != 0 {
		return nil, false
	}
	out := make([]byte, len(s)/2)
	for i := 0; i < len(out); i++ {
		h, ok1 := hexVal(s[2*i])
		l, ok2 := hexVal(s[2*i+1])
		if !ok1 || !ok2 {
			return nil, false
		}
		out[i] = h<<4 | l
	}
	return out, true
}

func hexVal(c byte) (byte, bool) {
	switch {
	case c >= '0' && c <= '9':
		return c - '0', true
	case c >= 'a' && c <= 'f':
		return c - 'a' + 10, true
	case c >= 'A' && c <= 'F':
		return c - 'A' + 10, true
	}
	return 0, false
}

// validNonceSuffix: a key suffix that can be the minimal big-endian encoding of a nonce (incl. none).
func validNonceSuffix(s string) bool {
	return len(s) <= 8 && (len(s) == 0 || s[0] != 0)
}
