package oracle

import (
	"encoding/hex"
	"math/big"
	"sort"
	"strconv"
	"strings"

	"github.com/ElrondNetwork/elrond-vm-common/parsers"

	"verifharness/world"
)

// Message states.
const (
	MsgPending       = iota // emitted, not yet delivered
	MsgRefundPending        // delivery failed, refund not yet executed (transfer functions only)
	MsgDone                 // delivered, refunded or dropped
)

// Msg is one in-flight cross-shard message of the environment model (DESIGN App. C, E3/E4).
// Ids are 0,1,2,… in emission order; the generator and the checker share this code, hence the numbering.
type Msg struct {
	ID        int
	Fn        string
	Caller    []byte // caller of the delivery
	Dest      []byte // recipient of the delivery
	Origin    int    // shard that emitted it (the refund executes there)
	Gas       uint64
	GasLocked uint64
	CallType  int
	Args      [][]byte
	Carried   map[string]*big.Int // token quantities in flight, per storage key
	State     int
	EmittedAt int // op index of the emitting call
}

// IsTransfer tells whether the message is one of the three transfer functions (refundable).
func (m *Msg) IsTransfer() bool { return IsTransferFn(m.Fn) }

func hexTok(b []byte) string {
	if len(b) == 0 {
		return "-"
	}
	return hex.EncodeToString(b)
}

// CallLine renders a `call` op line.
func CallLine(shard int, fn string, caller, rcv []byte, gas, gasLocked uint64, callType int, rae bool, callValue string, args [][]byte) string {
	var sb strings.Builder
	sb.WriteString("call ")
	sb.WriteString(strconv.Itoa(shard))
	sb.WriteByte(' ')
	sb.WriteString(fn)
	sb.WriteByte(' ')
	sb.WriteString(hexTok(caller))
	sb.WriteByte(' ')
	sb.WriteString(hexTok(rcv))
	sb.WriteByte(' ')
	sb.WriteString(strconv.FormatUint(gas, 10))
	sb.WriteByte(' ')
	sb.WriteString(strconv.FormatUint(gasLocked, 10))
	sb.WriteByte(' ')
	sb.WriteString(strconv.Itoa(callType))
	if rae {
		sb.WriteString(" 1 ")
	} else {
		sb.WriteString(" 0 ")
	}
	sb.WriteString(callValue)
	for _, a := range args {
		sb.WriteByte(' ')
		sb.WriteString(hexTok(a))
	}
	return sb.String()
}

// DeliveryLine is the call op that delivers m on the destination shard (E3).
func (m *Msg) DeliveryLine(w *world.World) string {
	return CallLine(int(w.ShardOf(m.Dest)), m.Fn, m.Caller, m.Dest, m.Gas, m.GasLocked, m.CallType, false, "0", m.Args)
}

// RefundLine is the call op that refunds m on the origin shard after a failed delivery (E4): same
// function, caller / recipient swapped, transfer arguments only, call type callback, rae set, gas 0.
func (m *Msg) RefundLine() string {
	return CallLine(m.Origin, m.Fn, m.Dest, m.Caller, 0, 0, 2, true, "0", m.TransferArgs())
}

// TransferArgs are the arguments of a (destination form) transfer message without the attached call.
func (m *Msg) TransferArgs() [][]byte {
	n := len(m.Args)
	switch m.Fn {
	case FnTransfer:
		n = 2
	case FnNFTTransfer:
		n = 4
	case FnMultiTransfer:
		if len(m.Args) > 0 {
			k := U64(m.Args[0])
			if k <= uint64(len(m.Args))/3 {
				n = int(1 + 3*k)
			}
		}
	}
	if n > len(m.Args) {
		n = len(m.Args)
	}
	return m.Args[:n]
}

// carriedOf computes the quantities a destination-form transfer message carries, per storage key.
// NFT payloads are decoded with the generated Unmarshal.
func carriedOf(fn string, args [][]byte) map[string]*big.Int {
	c := map[string]*big.Int{}
	add := func(k string, v *big.Int) {
		if c[k] == nil {
			c[k] = new(big.Int)
		}
		c[k].Add(c[k], v)
	}
	payload := func(tok, b []byte) {
		ti := DecodeToken(b)
		if ti.Err || ti.Tok.Value == nil {
			return
		}
		n := uint64(0)
		if ti.Tok.TokenMetaData != nil {
			n = ti.Tok.TokenMetaData.Nonce
		}
		add(TokenKey(tok, n), ti.Tok.Value)
	}
	switch fn {
	case FnTransfer:
		if len(args) >= 2 {
			add(TokenKey(args[0], 0), Big(args[1]))
		}
	case FnNFTTransfer:
		if len(args) >= 4 {
			payload(args[0], args[3])
		}
	case FnMultiTransfer:
		if len(args) < 1 {
			break
		}
		n := U64(args[0])
		if n > uint64(len(args))/3 || uint64(len(args)) < 1+3*n {
			break
		}
		for i := uint64(0); i < n; i++ {
			tok := args[1+3*i]
			if U64(args[2+3*i]) == 0 {
				add(TokenKey(tok, 0), Big(args[3+3*i]))
			} else {
				payload(tok, args[3+3*i])
			}
		}
	}
	return c
}

var callParser = parsers.NewCallArgsParser()

// emittedMessages lists, in a canonical order, the messages a successful call puts on the network:
//   - every output transfer whose destination account is not present on the executing shard but lives
//     on a shard of the world, and whose data parses (real call-args parser) to a built-in function;
//     for the three transfer functions only when the call is the sender side (caller present);
//   - a successful sender-side ESDTTransfer by a user (non-contract) to a remote destination: no output
//     transfer is produced, the transaction itself continues on the destination shard.
//
// The hand-over (ESDTNFTCreateRoleTransfer) is delivered with caller = the account that handed over.
func emittedMessages(w *world.World, c *world.Call, res *world.CallResult) []*Msg {
	var out []*Msg
	if res == nil || res.Status != "ok" || res.Out == nil {
		return nil
	}
	callerPresent := w.Present(c.Shard, c.Caller)
	onWorld := func(addr []byte) bool { return int64(w.ShardOf(addr)) < int64(w.NumShards()) }

	// output accounts in map-key order (same order as the observation line)
	keys := make([]string, 0, len(res.Out.OutputAccounts))
	for k := range res.Out.OutputAccounts {
		keys = append(keys, k)
	}
	sortStrings(keys)
	for _, k := range keys {
		oa := res.Out.OutputAccounts[k]
		if oa == nil {
			continue
		}
		for _, ot := range oa.OutputTransfers {
			if len(ot.Data) == 0 || w.Present(c.Shard, oa.Address) || !onWorld(oa.Address) {
				continue
			}
			fn, args, err := callParser.ParseData(string(ot.Data))
			if err != nil || !builtinSet[fn] {
				continue
			}
			if IsTransferFn(fn) && !(callerPresent && fn == c.Fn) {
				continue
			}
			m := &Msg{Fn: fn, Caller: ot.SenderAddress, Dest: oa.Address, Origin: c.Shard, Gas: ot.GasLimit,
				GasLocked: ot.GasLocked, CallType: int(ot.CallType), Args: args, Carried: carriedOf(fn, args)}
			if fn == FnHandOver {
				m.Caller = c.Rcv
			}
			out = append(out, m)
		}
	}
	if c.Fn == FnTransfer && callerPresent && !IsContract(c.Caller) && !w.Present(c.Shard, c.Rcv) && onWorld(c.Rcv) {
		out = append(out, &Msg{Fn: c.Fn, Caller: c.Caller, Dest: c.Rcv, Origin: c.Shard, Gas: res.Out.GasRemaining,
			GasLocked: c.GasLocked, CallType: c.CallType, Args: c.Args, Carried: carriedOf(c.Fn, c.Args)})
	}
	return out
}

func sortStrings(s []string) { sort.Strings(s) }
