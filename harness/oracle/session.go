package oracle

import (
	"bytes"
	"fmt"
	"math/big"

	"verifharness/world"
)

// Session couples a world with a checker: Exec(line) = Before; World.Exec; After. It is what both
// the generator and `harness oracle` run, so that a replay of an ops file reproduces the findings.
//
// In profile `determinism` (announced by `#@ profile determinism` as the first line) the session also
// evaluates C13: a second, separately constructed world is fed the identical op stream and must
// answer byte-for-byte the same; and every call is executed on input slices with spare capacity that
// share one backing array, which must be unchanged afterwards.
type Session struct {
	W *world.World
	C *Checker

	shadow *world.World
	// configuration ops seen so far (world, epoch, gasmap, payable): replayed on a freshly constructed world, they give
	// it the configuration of the running one; its accounts are then copied over (fresh-object comparison of C13)
	cfgLog []string
	// notifierLine: the `notifier` op in force (precedes the `world` op in the configuration a fresh replica is given)
	notifierLine string
	nCalls int
}

// NewSession creates a fresh world and its checker.
func NewSession() *Session {
	w := world.New()
	return &Session{W: w, C: New(w)}
}

// Exec executes one op line and returns the observation line (what `harness exec` prints).
func (s *Session) Exec(line string) (obs string) {
	s.C.Before(line)
	if s.C.Profile() == "determinism" {
		obs = s.execDeterminism(line)
	} else {
		obs = safeExec(s.W, line)
	}
	s.C.After(line, obs)
	if s.shadow == nil && s.C.Profile() == "determinism" && s.W.NumShards() == 0 {
		s.shadow = world.New() // from now on fed the same stream
	}
	return obs
}

// safeExec never lets a panic escape (World.Exec recovers on its own; this is the second net, as in cmd/harness).
func safeExec(w *world.World, line string) (obs string) {
	defer func() {
		if r := recover(); r != nil {
			obs = "panic"
		}
	}()
	return w.Exec(line)
}

// aliasedCall rebuilds the parsed input inside ONE backing array: caller, recipient and every argument
// are consecutive sub-slices whose capacity extends over everything that follows (an append on any
// of them would overwrite its neighbours), and the argument list itself has spare capacity.
func aliasedCall(c *world.Call) (c2 *world.Call, buf []byte) {
	const pad = 3
	total := len(c.Caller) + len(c.Rcv) + 2*pad + 16
	for _, a := range c.Args {
		total += len(a) + pad
	}
	buf = make([]byte, 0, total)
	place := func(b []byte) []byte {
		start := len(buf)
		buf = append(buf, b...)
		s := buf[start:len(buf)] // capacity runs to the end of buf
		for i := 0; i < pad; i++ {
			buf = append(buf, 0xEE)
		}
		return s
	}
	c2 = &world.Call{Shard: c.Shard, Fn: c.Fn, Gas: c.Gas, GasLocked: c.GasLocked, CallType: c.CallType, RAE: c.RAE,
		CallValue: new(big.Int).Set(c.CallValue)}
	c2.Caller = place(c.Caller)
	c2.Rcv = place(c.Rcv)
	args := make([][]byte, 0, len(c.Args)+4)
	for _, a := range c.Args {
		args = append(args, place(a))
	}
	for len(buf) < cap(buf) {
		buf = append(buf, 0xEE)
	}
	c2.Args = args
	return c2, buf
}

func (s *Session) execDeterminism(line string) (obs string) {
	op, _ := opOf(line)
	c, isCall := (*world.Call)(nil), false
	if op == "call" {
		c, isCall = s.W.ParseCallLine(line)
	}
	var fresh *world.World
	if !isCall {
		switch op {
		case "notifier":
			s.notifierLine = line
		case "world":
			s.cfgLog = []string{line}
			if s.notifierLine != "" {
				s.cfgLog = []string{s.notifierLine, line}
			}
		case "epoch", "gasmap", "payable", "aliasing":
			s.cfgLog = append(s.cfgLog, line)
		}
		obs = safeExec(s.W, line)
	} else {
		// every call of a short run, every 16th of a long one: a world built from scratch (fresh factory, container and
		// function objects) is given the configuration and the CURRENT state of the running one and must answer the same
		s.nCalls++
		if s.nCalls <= 4000 || s.nCalls%16 == 0 {
			fresh = s.freshReplica()
		}
		c2, buf := aliasedCall(c)
		pristine := append([]byte(nil), buf...)
		hdr := append([][]byte(nil), c2.Args...)
		value := new(big.Int).Set(c2.CallValue)
		func() {
			defer func() {
				if r := recover(); r != nil {
					obs = "panic"
				}
			}()
			r := s.W.Call(c2)
			obs = s.W.FormatCall(r)
			if r != nil && r.InputChanged != "" {
				s.C.Report("C13", line, "the call modified its input structure: field(s) "+r.InputChanged+" of the ContractCallInput differ after the call")
			}
		}()
		switch {
		case !bytes.Equal(buf, pristine):
			s.C.Report("C13", line, fmt.Sprintf("the call modified its input (caller / recipient / arguments or their spare capacity): %x became %x", pristine, buf))
		case len(c2.Args) != len(hdr) || c2.CallValue.Cmp(value) != 0:
			s.C.Report("C13", line, "the call modified its argument list or call value")
		default:
			full := c2.Args[:cap(c2.Args)]
			for i := range full {
				switch {
				case i >= len(hdr) && full[i] != nil:
					s.C.Report("C13", line, "the call appended to the caller's argument list in place")
				case i < len(hdr) && (len(full[i]) != len(hdr[i]) || (len(hdr[i]) > 0 && &full[i][0] != &hdr[i][0])):
					s.C.Report("C13", line, fmt.Sprintf("the call replaced argument %d of its input", i))
				}
			}
		}
	}
	if fresh != nil {
		if obsF := safeExec(fresh, line); obsF != obs {
			s.C.Report("C13", line, fmt.Sprintf("function objects that have executed the history answer differently from freshly constructed ones on the same state: %q vs %q (hidden state in a function object)", obs, obsF))
		}
	}
	if s.shadow != nil {
		if obs2 := safeExec(s.shadow, line); obs2 != obs {
			s.C.Report("C13", line, fmt.Sprintf("two independently constructed worlds fed the same ops answer differently: %q vs %q", obs, obs2))
		}
	}
	return obs
}

// freshReplica builds a new world with the configuration of s.W (by replaying the configuration ops) and a deep copy of
// its account states; nil when that is not possible.
func (s *Session) freshReplica() *world.World {
	if len(s.cfgLog) == 0 {
		return nil
	}
	r := world.New()
	for _, l := range s.cfgLog {
		safeExec(r, l)
	}
	if !r.CopyAccountsFrom(s.W) {
		return nil
	}
	return r
}
