package oracle

import (
	"encoding/hex"
	"math/big"
	"strconv"
	"strings"
)

// Oracles on pure ops.
//
// C14 (codec lossless, size = length): every `enctoken` / `encmeta` / `encroles` / `bigenc` answer
// `ok <bytes> <size>` must have size = len(bytes); when the next op of the matching `dec*` kind
// decodes exactly those bytes, its answer must be the encoded value (in canonical rendering).
//
// C20 (merge never writes the merged-in accounts): a `mergeseq` answer must end with `u=` followed
// only by `1`s.

type encMemo struct {
	kind  string // dec op that matches
	bytes string // produced bytes token
	value string // canonical rendering of the encoded value
	line  string
	ok    bool
}

var decOf = map[string]string{"enctoken": "dectoken", "encmeta": "decmeta", "encroles": "decroles", "bigenc": "bigdec"}

func normHexField(s string) string {
	if s == "-" {
		return ""
	}
	return strings.ToLower(s)
}

func normUint(s string) (string, bool) {
	v, err := strconv.ParseUint(s, 10, 64)
	if err != nil {
		return "", false
	}
	return strconv.FormatUint(v, 10), true
}

func normBig(s string) (string, bool) {
	if s == "n" {
		return "n", true
	}
	v, ok := new(big.Int).SetString(s, 10)
	if !ok {
		return "", false
	}
	return v.String(), true
}

func normMeta(s string) (string, bool) {
	if s == "n" {
		return "n", true
	}
	f := strings.Split(s, ":")
	if len(f) != 7 {
		return "", false
	}
	var ok1, ok2 bool
	f[0], ok1 = normUint(f[0])
	f[3], ok2 = normUint(f[3])
	if !ok1 || !ok2 {
		return "", false
	}
	for _, i := range []int{1, 2, 4, 5} {
		f[i] = normHexField(f[i])
	}
	f[6] = strings.ToLower(f[6])
	return strings.Join(f, ":"), true
}

func normToken(s string) (string, bool) {
	f := strings.Split(s, "/")
	if len(f) != 5 {
		return "", false
	}
	var ok1, ok2, ok3 bool
	f[0], ok1 = normUint(f[0])
	f[1], ok2 = normBig(f[1])
	f[2], f[3] = normHexField(f[2]), normHexField(f[3])
	f[4], ok3 = normMeta(f[4])
	if !ok1 || !ok2 || !ok3 {
		return "", false
	}
	return strings.Join(f, "/"), true
}

// afterPure evaluates the pure-op oracles; op / args are the split op line, obs the observation.
func (c *Checker) afterPure(line, op string, args []string, obs string) {
	line = strings.TrimRight(line, "\r\n")
	if obs == "panic" {
		// totality of the pure functions: parsers / builders (C12), codec (C14), helpers (C20)
		prop := "C20"
		switch {
		case strings.HasPrefix(op, "parse") || strings.HasPrefix(op, "build") || op == "enccall":
			prop = "C12"
		case strings.HasPrefix(op, "enc") || strings.HasPrefix(op, "dec") || strings.HasPrefix(op, "big"):
			prop = "C14"
		}
		c.Report(prop, line, op+" panicked")
		c.enc = encMemo{}
		return
	}
	switch op {
	case "epoch":
		if obs == "epoch ok" && (len(args) == 2 || len(args) == 3) {
			if e, err := strconv.ParseUint(args[1], 10, 64); err == nil {
				for s := 0; s < c.w.NumShards(); s++ {
					if args[0] == "*" || args[0] == strconv.Itoa(s) {
						c.lastEpoch[s] = e
					}
				}
			}
		}
	case "active":
		// C18: the three gated functions are active iff the last confirmed epoch >= activation epoch
		// (inactive before the first notification, see harness NOTES 15); the others always
		if len(args) != 2 || !strings.HasPrefix(obs, "active ") {
			return
		}
		shard, err := strconv.Atoi(args[0])
		if err != nil {
			return
		}
		want := "active nofunc"
		if builtinSet[args[1]] {
			want = "active 1"
			if args[1] == FnNFTAddURI || args[1] == FnNFTUpdate || args[1] == FnMultiTransfer {
				if e, ok := c.lastEpoch[shard]; !ok || e < c.activation {
					want = "active 0"
				}
			}
		}
		if obs != want {
			c.Report("C18", line, "answered `"+obs+"`, expected `"+want+"` (activation epoch "+strconv.FormatUint(c.activation, 10)+")")
		}
	case "codemeta", "usermeta", "globalmeta":
		// C20: two-byte forms decode flag by flag and re-encode to exactly the flag bits (canonical form); every other
		// length decodes to the empty value, which encodes as two zero bytes — on every line, whatever was decoded or
		// encoded before (the observation is compared with a spec written from the property, not with another run)
		if len(args) != 1 {
			return
		}
		b, ok := unhexTok(args[0])
		if !ok {
			return
		}
		bit := func(i int, m byte) bool { return len(b) == 2 && b[i]&m != 0 }
		z := func(x bool) string {
			if x {
				return "1"
			}
			return "0"
		}
		enc := []byte{0, 0}
		var want string
		if op == "codemeta" {
			up, pay, rd := bit(0, 1), bit(1, 2), bit(0, 4)
			if up {
				enc[0] |= 1
			}
			if rd {
				enc[0] |= 4
			}
			if pay {
				enc[1] |= 2
			}
			want = "ok " + z(up) + z(pay) + z(rd) + " " + hexTok(enc)
		} else {
			f := bit(0, 1)
			if f {
				enc[0] = 1
			}
			want = "ok " + z(f) + " " + hexTok(enc)
		}
		if obs != want {
			c.Report("C20", line, "answered `"+obs+"`, the byte form says `"+want+"`")
		}
	case "addr":
		// C20: address classification as documented (address.go's comments and constants, restated here byte by byte):
		// a contract address is longer than 10 bytes and starts with 8 zero bytes (the 2 VM-type bytes that follow are
		// free) — the all-zero address of such a length included; the system account is any address whose first 30 bytes
		// are 0xff; a metachain identifier is a non-empty run of 0xff; a metachain contract is a contract address longer
		// than 25 bytes whose bytes 10..24 are zero, asked with a metachain identifier; a key is open unless it starts with
		// the protected prefix
		if len(args) != 1 {
			return
		}
		b, ok := unhexTok(args[0])
		if !ok {
			return
		}
		all := func(x []byte, v byte) bool {
			for _, y := range x {
				if y != v {
					return false
				}
			}
			return true
		}
		z := func(x bool) string {
			if x {
				return "1"
			}
			return "0"
		}
		sc := len(b) > 10 && all(b[:8], 0)
		scmeta := len(b) > 25 && b[len(b)-1] == 0xff && sc && all(b[10:25], 0)
		want := "ok sc=" + z(sc) + " empty=" + z(all(b, 0)) + " sys=" + z(len(b) >= 30 && all(b[:30], 0xff)) +
			" metaid=" + z(len(b) > 0 && all(b, 0xff)) + " scmeta=" + z(scmeta) + " allowed=" + z(!strings.HasPrefix(string(b), "ELROND"))
		if obs != want {
			c.Report("C20", line, "answered `"+obs+"`, the documented classification is `"+want+"`")
		}
	case "registry":
		want := "registry " + strings.Join(AllFunctions, ",")
		if len(args) == 2 && args[1] == "second" {
			want += " bound=" + strconv.Itoa(len(AllFunctions))
		}
		if strings.HasPrefix(obs, "registry ") && obs != want {
			c.Report("C18", line, "registry is `"+obs+"`, expected `"+want+"`")
		}
	case "buildseq":
		// C12: a builder read always shows what the builder holds NOW - function, then every element in order, each
		// preceded by '@' - whatever was read before (the spec is the element list itself)
		c.enc = encMemo{}
		want, ok := buildSeqSpec(args)
		if ok && strings.HasPrefix(obs, "ok") && !strings.EqualFold(strings.TrimSpace(strings.TrimPrefix(obs, "ok")), want) {
			c.Report("C12", line, "builder reads are `"+obs+"`, the calls made say `ok "+want+"` (a read must reflect every call made before it, SetLast and Clear included)")
		}
	case "build", "enccall", "buildstorage":
		// C12: parse(build(x)) = x on the stated domains; remembered until the next parse op
		c.enc = encMemo{}
		f := strings.Split(obs, " ")
		if len(f) != 2 || f[0] != "ok" || len(args) == 0 {
			return
		}
		if op == "buildstorage" {
			// domain: non-empty list whose first offset is non-empty
			items := strings.Split(strings.ToLower(args[0]), ",")
			for i, it := range items {
				p := strings.Split(it, ":")
				if len(p) != 2 {
					return
				}
				items[i] = normHexField(p[0]) + ":" + normHexField(p[1])
			}
			if args[0] == "-" || strings.HasPrefix(items[0], ":") {
				return
			}
			c.enc = encMemo{kind: "parsestorage", bytes: f[1], value: strings.Join(items, ","), line: line, ok: true}
			return
		}
		// domain: function name non-empty and without '@'
		fn := strings.ToLower(args[0])
		if fn == "-" || strings.Contains(fn, "40") && hasAtByte(fn) {
			return
		}
		c.enc = encMemo{kind: "parsecall", bytes: f[1], value: fn + " " + strings.ToLower(strings.Join(args[1:], ",")), line: line, ok: true}
	case "parsecall", "parsestorage":
		m := c.enc
		c.enc = encMemo{}
		if !m.ok || m.kind != op || len(args) != 1 || args[0] != m.bytes {
			return
		}
		if obs != "ok "+m.value {
			c.Report("C12", line, "parse(build(x)) != x: `"+m.line+"` produced "+m.bytes+" which parses to `"+obs+"`, expected `ok "+m.value+"`")
		}
	case "mergeseq":
		if !strings.HasPrefix(obs, "ok ") {
			return
		}
		i := strings.LastIndex(obs, " u=")
		if i < 0 {
			c.Report("C20", line, "mergeseq answer carries no u= field: "+obs)
			return
		}
		// the merge laws on the result (A = addr;nonce;balance;delta;storage;code;codeMeta;deployer;transfers;gasUsed):
		// highest nonce, and the transfer list is the receiver's own list followed by the surplus of each merged-in list
		if res := strings.Split(obs[3:i], ";"); len(res) == 10 && len(args) >= 1 {
			okIn := true
			var trs []string
			maxNonce := uint64(0)
			for k, a := range args {
				f := strings.Split(a, ";")
				if len(f) != 10 {
					okIn = false
					break
				}
				n, err := strconv.ParseUint(f[1], 10, 64)
				if err != nil {
					okIn = false
					break
				}
				if k == 0 || n > maxNonce {
					maxNonce = n
				}
				var cur []string
				if f[8] != "" {
					cur = strings.Split(f[8], ".")
				}
				if len(cur) > len(trs) {
					trs = append(trs, cur[len(trs):]...)
				}
			}
			if okIn {
				if got := res[8]; got != strings.Join(trs, ".") {
					c.Report("C20", line, "merged transfer list is `"+got+"`, the receiver's own transfers followed by the new ones of each merged-in account are `"+strings.Join(trs, ".")+"`")
				}
				if res[1] != strconv.FormatUint(maxNonce, 10) {
					c.Report("C20", line, "merged nonce is "+res[1]+", the highest nonce is "+strconv.FormatUint(maxNonce, 10))
				}
			}
		}
		if bits := obs[i+3:]; strings.Trim(bits, "1") != "" {
			c.Report("C20", line, "a merged-in account (or the memory behind its transfer slice) was mutated by MergeOutputAccounts: u="+bits)
			c.Report("C13", line, "MergeOutputAccounts modified its input (the account merged in, or the spare capacity behind its transfer slice): u="+bits)
		}
	case "enctoken", "encmeta", "encroles", "bigenc":
		c.enc = encMemo{}
		f := strings.Split(obs, " ")
		if len(f) != 3 || f[0] != "ok" {
			return
		}
		n := 0
		if f[1] != "-" {
			n = len(f[1]) / 2
		}
		if strconv.Itoa(n) != f[2] {
			c.Report("C14", line, "Size() = "+f[2]+" but Marshal produced "+strconv.Itoa(n)+" bytes")
		}
		in := ""
		if len(args) > 0 {
			in = args[0]
		}
		var val string
		var ok bool
		switch op {
		case "enctoken":
			val, ok = normToken(in)
		case "encmeta":
			val, ok = normMeta(in)
			ok = ok && in != "n"
		case "encroles":
			val, ok = strings.ToLower(in), len(args) <= 1
		case "bigenc":
			val, ok = normBig(in)
		}
		c.enc = encMemo{kind: decOf[op], bytes: f[1], value: val, line: line, ok: ok}
		// the documented wire format, written out independently of the generated code: fields in ascending order,
		// zero scalars and empty byte fields elided, the Value field and every list element always present
		if want, okw := wantEncoding(op, in, len(args)); okw {
			got := f[1]
			if got == "-" {
				got = ""
			}
			if !strings.EqualFold(got, want) {
				c.Report("C14", line, "encoding differs from the documented wire format (fields in ascending order, zero / empty scalar fields elided, every list element present): got "+got+", documented "+want)
			}
		}
	case "dectoken", "decmeta", "decroles", "bigdec":
		m := c.enc
		c.enc = encMemo{}
		if !m.ok || m.kind != op || len(args) != 1 || args[0] != m.bytes {
			return
		}
		if obs != "ok "+m.value {
			c.Report("C14", line, "decode(encode(x)) != x: `"+m.line+"` produced "+m.bytes+" which decodes to `"+obs+"`, expected `ok "+m.value+"`")
		}
	default:
		c.enc = encMemo{}
	}
}

// hasAtByte tells whether the hex string contains the byte 0x40 ('@') at a byte boundary.
func hasAtByte(h string) bool {
	for i := 0; i+1 < len(h); i += 2 {
		if h[i] == '4' && h[i+1] == '0' {
			return true
		}
	}
	return false
}

// ---------------------------------------------------------------------------
// C14: the documented wire format, written out by hand (proto3, data/esdt/esdt.proto)
// ---------------------------------------------------------------------------

func pbVarint(n uint64) []byte {
	var b []byte
	for n >= 128 {
		b = append(b, byte(n%128+128))
		n /= 128
	}
	return append(b, byte(n))
}

func pbLen(tag byte, b []byte) []byte {
	return append(append([]byte{tag}, pbVarint(uint64(len(b)))...), b...)
}

func pbBytes(tag byte, b []byte) []byte {
	if len(b) == 0 {
		return nil
	}
	return pbLen(tag, b)
}

func pbUint(tag byte, n uint64) []byte {
	if n == 0 {
		return nil
	}
	return append([]byte{tag}, pbVarint(n)...)
}

// pbBig: BigIntCaster - nil is the single byte 00, zero is 00 00, otherwise a sign byte and the magnitude
func pbBig(s string) ([]byte, bool) {
	if s == "n" {
		return []byte{0}, true
	}
	v, ok := new(big.Int).SetString(s, 10)
	if !ok {
		return nil, false
	}
	if v.Sign() == 0 {
		return []byte{0, 0}, true
	}
	sign := byte(0)
	if v.Sign() < 0 {
		sign = 1
	}
	return append([]byte{sign}, new(big.Int).Abs(v).Bytes()...), true
}

func unhexOK(s string) ([]byte, bool) {
	if s == "-" || s == "" {
		return nil, true
	}
	b, err := hex.DecodeString(s)
	return b, err == nil
}

func wantMeta(s string) ([]byte, bool) {
	f := strings.Split(s, ":")
	if len(f) != 7 {
		return nil, false
	}
	nonce, err1 := strconv.ParseUint(f[0], 10, 64)
	roy, err2 := strconv.ParseUint(f[3], 10, 32)
	name, ok1 := unhexOK(f[1])
	creator, ok2 := unhexOK(f[2])
	hash, ok3 := unhexOK(f[4])
	attrs, ok4 := unhexOK(f[5])
	if err1 != nil || err2 != nil || !ok1 || !ok2 || !ok3 || !ok4 {
		return nil, false
	}
	var out []byte
	out = append(out, pbUint(0x08, nonce)...)
	out = append(out, pbBytes(0x12, name)...)
	out = append(out, pbBytes(0x1a, creator)...)
	out = append(out, pbUint(0x20, roy)...)
	out = append(out, pbBytes(0x2a, hash)...)
	if f[6] != "" {
		for _, u := range strings.Split(f[6], ".") {
			ub, ok := unhexOK(u)
			if !ok {
				return nil, false
			}
			out = append(out, pbLen(0x32, ub)...)
		}
	}
	out = append(out, pbBytes(0x3a, attrs)...)
	return out, true
}

// wantEncoding returns the hex of the documented encoding of the op's input (ok=false: input form not covered).
func wantEncoding(op, in string, nargs int) (string, bool) {
	switch op {
	case "bigenc":
		b, ok := pbBig(in)
		return hex.EncodeToString(b), ok
	case "encmeta":
		if in == "n" || nargs != 1 {
			return "", false
		}
		b, ok := wantMeta(in)
		return hex.EncodeToString(b), ok
	case "enctoken":
		f := strings.Split(in, "/")
		if len(f) != 5 || nargs != 1 {
			return "", false
		}
		typ, err := strconv.ParseUint(f[0], 10, 32)
		val, ok1 := pbBig(f[1])
		props, ok2 := unhexOK(f[2])
		res, ok3 := unhexOK(f[3])
		if err != nil || !ok1 || !ok2 || !ok3 {
			return "", false
		}
		var out []byte
		out = append(out, pbUint(0x08, typ)...)
		out = append(out, pbLen(0x12, val)...)
		out = append(out, pbBytes(0x1a, props)...)
		if f[4] != "n" {
			m, ok := wantMeta(f[4])
			if !ok {
				return "", false
			}
			out = append(out, pbLen(0x22, m)...)
		}
		out = append(out, pbBytes(0x2a, res)...)
		return hex.EncodeToString(out), true
	}
	return "", false
}

// buildSeqSpec replays the builder calls of a `buildseq` line on the obvious specification (function name + element list).
func buildSeqSpec(steps []string) (string, bool) {
	fn := ""
	var els []string
	var reads []string
	tok := func(x string) string {
		if x == "" {
			return "-"
		}
		return hex.EncodeToString([]byte(x))
	}
	for _, st := range steps {
		kind, arg := st, ""
		if i := strings.IndexByte(st, ':'); i >= 0 {
			kind, arg = st[:i], st[i+1:]
		}
		var val []byte
		if kind == "f" || kind == "b" || kind == "y" || kind == "s" || kind == "l" {
			v, ok := unhexOK(arg)
			if !ok {
				return "", false
			}
			val = v
		}
		switch kind {
		case "f":
			fn = string(val)
		case "b", "s":
			els = append(els, hex.EncodeToString(val))
		case "y":
			if len(val) != 1 {
				return "", false
			}
			els = append(els, hex.EncodeToString(val))
		case "i":
			n, ok := new(big.Int).SetString(arg, 10)
			if !ok {
				return "", false
			}
			els = append(els, hex.EncodeToString(new(big.Int).Abs(n).Bytes()))
		case "t":
			els = append(els, hex.EncodeToString([]byte("true")))
		case "x":
			els = append(els, hex.EncodeToString([]byte("false")))
		case "c":
			fn, els = "", nil
		case "l":
			if len(els) == 0 {
				els = []string{string(val)}
			} else {
				els[len(els)-1] = string(val)
			}
		case "r":
			d := fn
			for _, e := range els {
				d += "@" + e
			}
			reads = append(reads, tok(d))
		case "g":
			if len(els) == 0 {
				reads = append(reads, "-")
			} else {
				reads = append(reads, tok(els[len(els)-1]))
			}
		default:
			return "", false
		}
	}
	return strings.Join(reads, ","), true
}
