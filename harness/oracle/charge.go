package oracle

import (
	"bytes"
	"math/big"
	"strconv"
	"strings"

	"github.com/ElrondNetwork/elrond-vm-common/data/esdt"
)

// C16 — priced by the function's own entry of the schedule in force.
//
// Ghost: the schedule in force per shard, learned from the `world` line and from `gasmap` ops with
// the acceptance rule of the property (a change is accepted as a whole iff all 22 entries are present
// and non-zero, otherwise the old schedule stays). After a successful call executed where the
// caller's account lives (the charging execution) the observed charge
// GasProvided - GasRemaining - Σ forwarded must equal the closed formula below.

var builtInCostFields = []string{"ChangeOwnerAddress", "ClaimDeveloperRewards", "SaveUserName", "SaveKeyValue", "ESDTTransfer", "ESDTBurn",
	"ESDTLocalMint", "ESDTLocalBurn", "ESDTNFTCreate", "ESDTNFTAddQuantity", "ESDTNFTBurn", "ESDTNFTTransfer", "ESDTNFTChangeCreateOwner",
	"ESDTNFTMultiTransfer", "ESDTNFTAddURI", "ESDTNFTUpdateAttributes"}
var baseCostFields = []string{"StorePerByte", "ReleasePerByte", "DataCopyPerByte", "PersistPerByte", "CompilePerByte", "AoTPreparePerByte"}

// parseSchedule parses a <gasmap> token. complete: all 22 entries present and non-zero. exact: every
// key is one of the 22 exact names (otherwise the decoder's case-insensitive matching / unknown keys
// make the outcome uncertain for this ghost).
func parseSchedule(tok string) (m map[string]uint64, complete, exact bool) {
	m = map[string]uint64{}
	exact = true
	if tok != "-" {
		for _, item := range strings.Split(tok, ",") {
			eq := strings.IndexByte(item, '=')
			if eq < 0 {
				return nil, false, false
			}
			v, err := strconv.ParseUint(item[eq+1:], 10, 64)
			if err != nil {
				return nil, false, false
			}
			m[item[:eq]] = v
		}
	}
	names := map[string]bool{}
	complete = true
	for _, f := range builtInCostFields {
		names["BuiltInCost."+f] = true
		if m["BuiltInCost."+f] == 0 {
			complete = false
		}
	}
	for _, f := range baseCostFields {
		names["BaseOperationCost."+f] = true
		if m["BaseOperationCost."+f] == 0 {
			complete = false
		}
	}
	for k := range m {
		if !names[k] {
			exact = false
		}
	}
	return m, complete, exact
}

func (c *Checker) scheduleFromWorld(tok string, nshards int) {
	c.sched = map[int]map[string]uint64{}
	m, complete, exact := parseSchedule(tok)
	if !complete || !exact {
		return // accepted by the factory in a way this ghost does not model: no C16 verdicts
	}
	for s := 0; s < nshards; s++ {
		c.sched[s] = m
	}
}

func (c *Checker) scheduleChange(target, tok string) {
	m, complete, exact := parseSchedule(tok)
	for s := 0; s < c.w.NumShards(); s++ {
		if target != "*" && target != strconv.Itoa(s) {
			continue
		}
		switch {
		case m == nil || !exact:
			delete(c.sched, s) // uncertain from here on
		case complete:
			c.sched[s] = m
		}
	}
}

// marshalLen is the length of the generated encoding of the stored entry `entry` with Value := v.
func marshalLen(entry *TokInfo, v *big.Int) (int, bool) {
	if entry == nil || entry.Err || entry.Tok == nil {
		return 0, false
	}
	t := esdt.ESDigitalToken{Type: entry.Tok.Type, Value: v, Properties: entry.Tok.Properties, Reserved: entry.Tok.Reserved, TokenMetaData: entry.Tok.TokenMetaData}
	return t.Size(), true
}

// expectedCharge is the closed formula of C16 for the charging execution of call x (ok=false: not
// applicable to this call).
func (c *Checker) expectedCharge(x *callCtx) (uint64, bool) {
	call := x.call
	sched := c.sched[call.Shard]
	dstPresent := c.w.Present(call.Shard, call.Rcv)
	if sched == nil {
		return 0, false
	}
	if !c.w.Present(call.Shard, call.Caller) && !(call.Fn == FnSetUserName && dstPresent) {
		return 0, false // not the charging execution
	}
	cost := func(f string) uint64 { return sched["BuiltInCost."+f] }
	store, persist, dataCopy := sched["BaseOperationCost.StorePerByte"], sched["BaseOperationCost.PersistPerByte"], sched["BaseOperationCost.DataCopyPerByte"]
	a := call.Args
	sumLen := func(l [][]byte) uint64 {
		n := uint64(0)
		for _, b := range l {
			n += uint64(len(b))
		}
		return n
	}
	switch call.Fn {
	case FnChangeOwner:
		return cost("ChangeOwnerAddress"), true
	case FnClaim:
		if !dstPresent && call.Gas < cost("ClaimDeveloperRewards") {
			return call.Gas, true // underfunded cross-shard leg: everything is consumed
		}
		return cost("ClaimDeveloperRewards"), true
	case FnSetUserName:
		if !dstPresent {
			return 0, true // everything is forwarded; the destination shard charges
		}
		return cost("SaveUserName"), true
	case FnSaveKeyValue:
		total := cost("SaveKeyValue")
		cur := map[string][]byte{}
		for i := 0; i+1 < len(a); i += 2 {
			k, v := string(a[i]), a[i+1]
			total += uint64(len(k)+len(v)) * persist
			old, seen := cur[k]
			if !seen {
				old = x.pre.value(call.Caller, k)
			}
			if bytes.Equal(old, v) {
				continue
			}
			if len(v) > len(old) {
				total += uint64(len(v)-len(old)) * store
			}
			cur[k] = v
		}
		return total, true
	case FnTransfer:
		return cost("ESDTTransfer"), true
	case FnBurn:
		return cost("ESDTBurn"), true
	case FnLocalMint:
		return cost("ESDTLocalMint"), true
	case FnLocalBurn:
		return cost("ESDTLocalBurn"), true
	case FnNFTAddQty:
		return cost("ESDTNFTAddQuantity"), true
	case FnNFTBurn:
		return cost("ESDTNFTBurn"), true
	case FnNFTCreate:
		return cost("ESDTNFTCreate") + sumLen(a)*store, true
	case FnNFTAddURI:
		if len(a) < 3 {
			return 0, false
		}
		return cost("ESDTNFTAddURI") + sumLen(a[2:])*store, true
	case FnNFTUpdate:
		if len(a) < 3 {
			return 0, false
		}
		return cost("ESDTNFTUpdateAttributes") + uint64(len(a[2]))*store, true
	case FnNFTTransfer, FnMultiTransfer:
		sh := shapeOf(c.w, call)
		if !sh.ok || !sh.senderForm {
			return 0, false
		}
		total := cost("ESDTNFTTransfer")
		if call.Fn == FnMultiTransfer {
			total = uint64(len(sh.items)) * cost("ESDTNFTMultiTransfer")
		}
		// per item with metadata: DataCopyPerByte * |payload|. The payload is the sender's entry with the
		// value the library holds at marshalling time: the quantity, plus — when the destination is
		// local — what the destination held before that item (the in-place addition of the credit).
		local := c.w.Present(call.Shard, sh.dest)
		running := map[string]*big.Int{}
		for _, it := range sh.items {
			src := c.cache.decode(x.pre.value(call.Caller, it.key()))
			if src.Meta() == nil {
				continue
			}
			v := new(big.Int).Set(it.qty)
			if local {
				k := it.key()
				if running[k] == nil {
					running[k] = new(big.Int).Set(c.cache.decode(x.pre.value(sh.dest, k)).Val())
				}
				v.Add(v, running[k])
				running[k] = v
			}
			n, ok := marshalLen(src, v)
			if !ok {
				return 0, false
			}
			total += uint64(n) * dataCopy
		}
		return total, true
	}
	return 0, false
}

// checkCharge evaluates C16 on an ok call.
func (c *Checker) checkCharge(x *callCtx) {
	want, ok := c.expectedCharge(x)
	if !ok {
		return
	}
	got := new(big.Int).SetUint64(x.call.Gas)
	got.Sub(got, new(big.Int).SetUint64(x.res.Out.GasRemaining))
	for _, oa := range sortedOutputAccounts(x.res.Out) {
		for _, t := range oa.OutputTransfers {
			got.Sub(got, new(big.Int).SetUint64(t.GasLimit))
		}
	}
	if got.Cmp(new(big.Int).SetUint64(want)) != 0 {
		// one call site is recorded as a known finding (DESIGN §7.4, K1) and gets a message of its own, so that any
		// other wrong charge — of this function too — is still reported under the general text
		if x.call.Fn == FnClaim && x.call.CallType == 1 && IsContract(x.call.Caller) &&
			c.w.Present(x.call.Shard, x.call.Rcv) && x.res.Out.GasRemaining == 0 && len(x.res.Out.OutputAccounts) == 0 {
			c.report(x, "C16", "ClaimDeveloperRewards by a smart-contract caller through an asynchronous call on the contract's own shard consumed all %s gas: GasRemaining is 0 and the output transfer that carried the remaining gas was dropped with the output accounts (the schedule in force prices this call at %d)", got, want)
			return
		}
		c.report(x, "C16", "charged %s gas, the schedule in force prices this call at %d", got, want)
	}
}
