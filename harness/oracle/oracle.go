// Package oracle evaluates the property predicates (C01…C17) on the IMPLEMENTATION's behaviour.
//
// A Checker is fed every op line before and after it is executed by a world.World. It learns
// everything from the op lines, from the annotation comments (`#@ …`) and from the world itself
// (state, LastCall), and keeps the ghost state the predicates need: in-flight messages, expected
// supply per storage key, issued nonces per token, payable answers, armed fault, raw-written slots.
//
// Annotation comments (echoed as `#` by the harness and by the model, hence free metadata):
//
//	#@ profile <name>     generator profile (switches off checks the profile deliberately violates)
//	#@ strict             the next call is compared in both directions by the outer comparator (ignored here)
//	#@ deliver <id>       the next call delivers in-flight message <id>
//	#@ refund <id>        the next call refunds message <id> after its failed delivery
//	#@ user               the next call is user-originated (default)
//	#@ undisciplined <tokhex>  single-creator discipline was broken on purpose for this token (C07 uniqueness off)
package oracle

import (
	"bytes"
	"fmt"
	"math/big"
	"strconv"
	"strings"

	"verifharness/world"
)

// Finding is one violated predicate.
type Finding struct {
	Property string `json:"property"`
	OpIndex  int    `json:"op_index"` // 0-based index of the op line in the stream
	Line     string `json:"line"`
	What     string `json:"what"`
}

type annotation struct {
	kind string // "", "user", "deliver", "refund"
	id   int
}

// callCtx is everything the oracles of one call op look at.
type callCtx struct {
	idx   int
	line  string
	call  *world.Call
	res   *world.CallResult
	pre   shardSnap
	ann   annotation
	msg   *Msg // message being delivered / refunded (nil for user calls)
	fault int  // armed fault index, -1 = none
	isSys bool // caller is the ESDT system contract
	emits []*Msg
}

// Checker is the property oracle. Not safe for concurrent use.
type Checker struct {
	w        *world.World
	idx      int
	findings []Finding

	// ghost state
	profile       string
	dns           map[string]bool
	payable       map[string]string // addr -> "no" | "err" (absent = yes)
	ann           annotation
	msgs          []*Msg
	expected      map[string]*big.Int        // expected world supply per storage key
	issued        map[string]map[uint64]bool // nonces returned by NFTCreate, per token
	undisciplined map[string]bool
	known         map[string]bool           // well-formed token ids that were issued (a role was set / minted / created)
	raw           map[int]map[string][]byte // slots last written by `raw`: shard -> addr\x00key -> value
	cache         decodeCache
	cur           *callCtx
	enc           encMemo                   // last enc* op (C14 round trip)
	activation    uint64                    // activation epoch of the world line (C18)
	lastEpoch     map[int]uint64            // last confirmed epoch per shard (absent = none yet)
	regEpoch      *uint64                   // `notifier <epoch>`: epoch confirmed to every handler at registration (next worlds)
	sched         map[int]map[string]uint64 // gas schedule in force per shard (absent = unknown to the ghost)
	MaxFindings   int                       // recording stops after this many (0 = 10000)
}

// New creates a checker observing w.
func New(w *world.World) *Checker {
	c := &Checker{w: w, idx: -1}
	c.resetGhost()
	return c
}

func (c *Checker) resetGhost() {
	c.dns = map[string]bool{}
	c.payable = map[string]string{}
	c.ann = annotation{}
	c.msgs = nil
	c.expected = map[string]*big.Int{}
	c.issued = map[string]map[uint64]bool{}
	c.undisciplined = map[string]bool{}
	c.known = map[string]bool{}
	c.raw = map[int]map[string][]byte{}
	c.cur = nil
	c.activation = 0
	c.lastEpoch = map[int]uint64{}
	c.sched = map[int]map[string]uint64{}
}

// Findings returns the findings recorded so far.
func (c *Checker) Findings() []Finding { return c.findings }

// Profile returns the profile announced by `#@ profile`.
func (c *Checker) Profile() string { return c.profile }

// Report records a finding at the current op (also used by Session for C13).
func (c *Checker) Report(prop, line, what string) {
	max := c.MaxFindings
	if max == 0 {
		max = 10000
	}
	if len(c.findings) >= max {
		return
	}
	c.findings = append(c.findings, Finding{Property: prop, OpIndex: c.idx, Line: strings.TrimRight(line, "\r\n"), What: what})
}

func (x *callCtx) String() string { return x.line }

// Pending returns the messages that await delivery (in id order).
func (c *Checker) Pending() []*Msg { return c.inState(MsgPending) }

// RefundPending returns the messages whose delivery failed and whose refund has not been executed.
func (c *Checker) RefundPending() []*Msg { return c.inState(MsgRefundPending) }

func (c *Checker) inState(st int) []*Msg {
	var out []*Msg
	for _, m := range c.msgs {
		if m.State == st {
			out = append(out, m)
		}
	}
	return out
}

// Decode decodes a stored token entry through the checker's cache (shared result: do not modify).
func (c *Checker) Decode(b []byte) *TokInfo { return c.cache.decode(b) }

// PayableAnswer is the ghost view of the payable oracle for addr: "yes", "no" or "err".
func (c *Checker) PayableAnswer(addr []byte) string {
	if a, ok := c.payable[string(addr)]; ok {
		return a
	}
	return "yes"
}

// Undisciplined reports whether single-creator discipline is known to be broken for tok.
func (c *Checker) Undisciplined(tok []byte) bool { return c.undisciplined[string(tok)] }

// ---------------------------------------------------------------------------
// Before / After
// ---------------------------------------------------------------------------

func opOf(line string) (string, []string) {
	line = strings.TrimRight(line, "\r\n")
	if line == "" || line[0] == '#' {
		return "#", nil
	}
	toks := strings.Split(line, " ")
	return toks[0], toks[1:]
}

// Before must be called before w.Exec(line).
func (c *Checker) Before(line string) {
	c.idx++
	c.cur = nil
	op, _ := opOf(line)
	if op != "call" || c.w.NumShards() == 0 {
		return
	}
	call, ok := c.w.ParseCallLine(line)
	if !ok {
		return
	}
	x := &callCtx{idx: c.idx, line: strings.TrimRight(line, "\r\n"), call: call, ann: c.ann, fault: c.w.FaultArmed()}
	x.pre = snapshotShard(c.w, call.Shard)
	x.isSys = bytes.Equal(call.Caller, ESDTSC)
	// bind the annotation to a message; an annotation that does not match the ghost is ignored
	switch x.ann.kind {
	case "deliver":
		if m := c.msgByID(x.ann.id); m != nil && m.State == MsgPending && m.DeliveryLine(c.w) == x.line {
			x.msg = m
		} else {
			x.ann = annotation{}
		}
	case "refund":
		if m := c.msgByID(x.ann.id); m != nil && m.State == MsgRefundPending && m.RefundLine() == x.line {
			x.msg = m
		} else {
			x.ann = annotation{}
		}
	}
	c.cur = x
}

func (c *Checker) msgByID(id int) *Msg {
	if id < 0 || id >= len(c.msgs) {
		return nil
	}
	return c.msgs[id]
}

// After must be called after w.Exec(line) with the observation it returned.
func (c *Checker) After(line string, obs string) {
	op, args := opOf(line)
	switch op {
	case "#":
		c.annotate(strings.TrimRight(line, "\r\n"))
		return
	case "notifier":
		if obs == "notifier ok" && len(args) == 1 {
			if args[0] == "off" {
				c.regEpoch = nil
			} else if e, err := strconv.ParseUint(args[0], 10, 64); err == nil {
				c.regEpoch = &e
			}
		}
		return
	case "world":
		if obs == "world ok" || obs == "world err" {
			c.resetGhost()
			if c.regEpoch != nil && obs == "world ok" {
				for s := 0; s < c.w.NumShards(); s++ {
					c.lastEpoch[s] = *c.regEpoch // every handler was told this epoch when it registered
				}
			}
			if len(args) == 5 {
				c.activation, _ = strconv.ParseUint(args[2], 10, 64)
				if obs == "world ok" {
					c.scheduleFromWorld(args[4], c.w.NumShards())
				}
			}
			if obs == "world ok" && len(args) == 5 && args[3] != "-" {
				for _, t := range strings.Split(args[3], ",") {
					if b, ok := unhexStr(t); ok {
						c.dns[string(b)] = true
					}
				}
			}
		}
		return
	case "payable":
		if obs == "payable ok" && len(args) == 2 {
			if b, ok := unhexTok(args[0]); ok {
				if args[1] == "yes" {
					delete(c.payable, string(b))
				} else {
					c.payable[string(b)] = args[1]
				}
			}
		}
		return
	case "raw":
		if obs == "raw ok" && len(args) == 4 {
			c.afterRaw(args)
		}
		return
	case "gasmap":
		if obs == "gasmap ok" && len(args) == 2 {
			c.scheduleChange(args[0], args[1])
		}
		return
	case "call":
		x := c.cur
		c.cur = nil
		c.ann = annotation{}
		if x == nil || obs == "badop" || obs == "noworld" {
			return
		}
		x.res = c.w.LastCall()
		if x.res == nil {
			return
		}
		c.afterCall(x)
		return
	default:
		c.afterPure(line, op, args, obs) // C14 / C20 oracles on pure ops
	}
}

func unhexTok(t string) ([]byte, bool) {
	if t == "-" {
		return []byte{}, true
	}
	if t == "" {
		return nil, false
	}
	return unhexStr(t)
}

func (c *Checker) annotate(line string) {
	if !strings.HasPrefix(line, "#@ ") {
		return
	}
	f := strings.Fields(line[3:])
	if len(f) == 0 {
		return
	}
	switch f[0] {
	case "profile":
		if len(f) > 1 {
			c.profile = f[1]
		}
	case "user":
		c.ann = annotation{kind: "user"}
	case "deliver", "refund":
		if len(f) > 1 {
			if id, err := strconv.Atoi(f[1]); err == nil {
				c.ann = annotation{kind: f[0], id: id}
			}
		}
	case "undisciplined":
		if len(f) > 1 {
			if b, ok := unhexTok(f[1]); ok {
				c.undisciplined[string(b)] = true
			}
		}
	}
}

// afterRaw: a raw write is the test author's hand in the state. The written slot is remembered (the
// well-formedness scan skips it while it still holds the raw value), the expected supply is
// recomputed from scratch, and single-creator discipline is re-examined for the token concerned.
func (c *Checker) afterRaw(args []string) {
	shard, err := strconv.Atoi(args[0])
	addr, ok1 := unhexTok(args[1])
	key, ok2 := unhexTok(args[2])
	val, ok3 := unhexTok(args[3])
	if err != nil || !ok1 || !ok2 || !ok3 {
		return
	}
	if c.raw[shard] == nil {
		c.raw[shard] = map[string][]byte{}
	}
	c.raw[shard][string(addr)+"\x00"+string(key)] = val
	c.expected = c.actualTotals()

	k := string(key)
	switch {
	case strings.HasPrefix(k, NoncePrefix):
		tok := k[len(NoncePrefix):]
		for n := range c.issued[tok] {
			if n > U64(val) {
				c.undisciplined[tok] = true // counter set below an issued nonce
			}
		}
	case strings.HasPrefix(k, RolePrefix):
		tok := k[len(RolePrefix):]
		if c.creators(tok) > 1 {
			c.undisciplined[tok] = true
		}
	}
}

// creators counts the holders of the create role for tok over the whole world plus in-flight hand-overs.
func (c *Checker) creators(tok string) int {
	n := 0
	for s := 0; s < c.w.NumShards(); s++ {
		for _, a := range c.w.Accounts(s) {
			if roles, ok := DecodeRoles(a.Get(RolePrefix + tok)); ok && hasRole(roles, RoleNFTCreate) {
				n++
			}
		}
	}
	for _, m := range c.msgs {
		if m.State == MsgPending && m.Fn == FnHandOver && len(m.Args) > 0 && string(m.Args[0]) == tok {
			n++
		}
	}
	return n
}

// ---------------------------------------------------------------------------
// supply bookkeeping
// ---------------------------------------------------------------------------

func addTo(m map[string]*big.Int, k string, v *big.Int) {
	if v == nil || v.Sign() == 0 {
		return
	}
	if m[k] == nil {
		m[k] = new(big.Int)
	}
	m[k].Add(m[k], v)
	if m[k].Sign() == 0 {
		delete(m, k)
	}
}

// actualTotals sums, per storage key with prefix ELRONDesdt, the decoded values of all accounts of all
// shards except the system account, plus the quantities carried by in-flight messages.
func (c *Checker) actualTotals() map[string]*big.Int {
	t := map[string]*big.Int{}
	for s := 0; s < c.w.NumShards(); s++ {
		for _, a := range c.w.Accounts(s) {
			if bytes.Equal(a.Address(), SystemAccount) {
				continue
			}
			a.ForEach(func(k string, v []byte) {
				if strings.HasPrefix(k, EsdtPrefix) {
					addTo(t, k, c.cache.decode(v).Val())
				}
			})
		}
	}
	for _, m := range c.msgs {
		if m.State != MsgDone {
			for k, v := range m.Carried {
				addTo(t, k, v)
			}
		}
	}
	return t
}

func diffTotals(want, got map[string]*big.Int) string {
	// fast path: equal maps (zero entries are never stored)
	same := len(want) == len(got)
	if same {
		for k, w := range want {
			if g := got[k]; g == nil || g.Cmp(w) != 0 {
				same = false
				break
			}
		}
	}
	if same {
		return ""
	}
	var parts []string
	keys := map[string]bool{}
	for k := range want {
		keys[k] = true
	}
	for k := range got {
		keys[k] = true
	}
	ks := make([]string, 0, len(keys))
	for k := range keys {
		ks = append(ks, k)
	}
	sortStrings(ks)
	for _, k := range ks {
		w, g := want[k], got[k]
		if w == nil {
			w = new(big.Int)
		}
		if g == nil {
			g = new(big.Int)
		}
		if w.Cmp(g) != 0 {
			parts = append(parts, fmt.Sprintf("key %x: expected %s, world has %s", k, w, g))
		}
	}
	return strings.Join(parts, "; ")
}
