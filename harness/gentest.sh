#!/bin/sh
# Generator / oracle self-test: for every profile and the given seeds (default 1..3, n=1000)
#   - gen must run,
#   - `harness exec < X.ops` must reproduce X.impl.obs byte for byte,
#   - `harness oracle < X.ops` must reproduce X.findings.jsonl,
#   - on the pristine /repo there must be no finding.
# usage: ./gentest.sh ["seeds"] [n]
set -e
cd "$(dirname "$0")"
export GOFLAGS=-mod=mod GOPROXY=off GOSUMDB=off GOTOOLCHAIN=local
seeds=${1:-"1 2 3"}
n=${2:-1000}
go build -tags verif -o bin/gen ./cmd/gen
go build -tags verif -o bin/harness ./cmd/harness
tmp=$(mktemp -d)
trap 'rm -rf "$tmp"' EXIT
fail=0
for p in transfers supply authority gates frame gas nonces metadata adversarial faults determinism activation parsers codec helpers; do
	for s in $seeds; do
		d="$tmp/s$s"
		bin/gen -q -profile "$p" -seed "$s" -n "$n" -out "$d" || { echo "gentest: FAIL gen $p seed $s"; fail=1; continue; }
		bin/harness exec <"$d/$p.ops" | cmp -s - "$d/$p.impl.obs" || { echo "gentest: FAIL $p seed $s: harness exec differs from impl.obs"; fail=1; }
		bin/harness oracle <"$d/$p.ops" | cmp -s - "$d/$p.findings.jsonl" || { echo "gentest: FAIL $p seed $s: harness oracle differs from findings.jsonl"; fail=1; }
		if [ -s "$d/$p.findings.jsonl" ]; then
			echo "gentest: FINDINGS $p seed $s: $(wc -l <"$d/$p.findings.jsonl")"; head -2 "$d/$p.findings.jsonl"; fail=1
		fi
	done
done
[ $fail = 0 ] && echo "gentest: PASS (seeds: $seeds, n=$n)"
exit $fail
