package main

import (
	"bytes"
	"math/big"

	"verifharness/oracle"
	"verifharness/world"
)

// ---------------------------------------------------------------------------
// state-aware op generators shared by the ledger profiles
// ---------------------------------------------------------------------------

// destFor chooses the destination of a transfer of (tok, nonce) sent by a.
func (g *gen) destFor(a, tok []byte, nonce uint64, nftForm bool) []byte {
	switch g.r.Intn(24) {
	case 0:
		return a // self
	case 1:
		if nftForm { // wrong length
			b := g.otherThan(a, nil)
			if b != nil {
				if g.r.Intn(2) == 0 {
					return append([]byte{}, b[:31]...)
				}
				return append(append([]byte{}, b...), byte(g.r.Intn(3)))
			}
		}
	case 2:
		return g.meta
	case 3, 4, 5: // already holding
		var l [][]byte
		for _, b := range g.accounts {
			if !bytes.Equal(a, b) && g.holdingOf(b, tok, nonce).Sign() > 0 {
				l = append(l, b)
			}
		}
		if len(l) > 0 {
			return g.pick(l)
		}
	case 6, 7, 8, 9, 10, 11: // other shard
		if b := g.otherThan(a, g.otherShard(a)); b != nil {
			return b
		}
	case 12, 13, 14: // contract
		var l [][]byte
		for _, b := range g.contracts {
			if !bytes.Equal(a, b) {
				l = append(l, b)
			}
		}
		if len(l) > 0 {
			return g.pick(l)
		}
	}
	if b := g.otherThan(a, nil); b != nil {
		return b
	}
	return a
}

func (g *gen) decorate(sp spec) spec {
	sp.ct = g.callType()
	if g.r.Intn(6) == 0 {
		sp.gasLocked = uint64(g.r.Intn(1000))
	}
	if g.r.Intn(60) == 0 {
		sp.rae = true
	}
	if g.r.Intn(80) == 0 {
		sp.value = []string{"1", "-1"}[g.r.Intn(2)]
	}
	return sp
}

// opTransfer: ESDTTransfer of a fungible holding.
func (g *gen) opTransfer() bool {
	x, ok := g.pickHeld(isFung)
	if !ok {
		return false
	}
	if y, ok2 := g.pickHeld(isNFT); ok2 && g.r.Intn(40) == 0 {
		// ESDTTransfer naming the key of an NFT holding (T||nonce as a fungible id)
		tok, _ := g.aliasPair(holding{tok: y.h.tok, nonce: y.h.nonce})
		g.do(g.user(oracle.FnTransfer, y.a, g.destFor(y.a, y.h.tok, y.h.nonce, false), bigGas, tok, g.smallPart(y.h.val, 1)))
		return true
	}
	tok := x.h.tok
	if g.r.Intn(30) == 0 {
		tok = g.aliasID(tok)
	}
	dest := g.destFor(x.a, x.h.tok, 0, false)
	args := g.attach([][]byte{tok, g.amtFor(x.h.val)})
	g.do(g.decorate(g.user(oracle.FnTransfer, x.a, dest, g.gasFor(g.cost(oracle.FnTransfer)), args...)))
	return true
}

// nftGas: a gas value around cost + copy cost of the payload.
func (g *gen) nftGas(fn string, items int) uint64 {
	c := g.cost(fn) * uint64(items)
	switch g.r.Intn(16) {
	case 0:
		return 0
	case 1:
		return c - 1
	case 2:
		return c
	case 3:
		return c + 1
	case 4, 5:
		return c + uint64(g.r.Intn(200*items))*g.gas["BaseOperationCost.DataCopyPerByte"]
	}
	return bigGas
}

// opNFTTransfer: ESDTNFTTransfer (sender form) of an NFT / SFT holding.
func (g *gen) opNFTTransfer() bool {
	x, ok := g.pickHeld(isNFT)
	if !ok {
		return false
	}
	if g.r.Intn(25) == 0 {
		// the same storage key under another spelling; also NFT transfers on a fungible holding
		y := x
		if z, ok2 := g.pickHeld(isFung); ok2 && g.r.Intn(2) == 0 {
			y = z
		}
		tok, nb := g.aliasPair(y.h)
		dest := g.destFor(y.a, y.h.tok, y.h.nonce, true)
		g.do(g.user(oracle.FnNFTTransfer, y.a, y.a, bigGas, tok, nb, g.smallPart(y.h.val, 1), dest))
		return true
	}
	tok, nb := x.h.tok, x.h.nb()
	switch g.r.Intn(40) {
	case 0:
		tok = g.aliasID(tok)
	case 1, 2:
		nb = g.nonceArg()
	case 3:
		nb = append([]byte{0}, nb...) // leading zero
	}
	dest := g.destFor(x.a, x.h.tok, x.h.nonce, true)
	args := g.attach([][]byte{tok, nb, g.amtFor(x.h.val), dest})
	g.do(g.decorate(g.user(oracle.FnNFTTransfer, x.a, x.a, g.nftGas(oracle.FnNFTTransfer, 1), args...)))
	return true
}

// opMulti: MultiESDTNFTTransfer with 1..4 items incl. repeated (token, nonce), mixed kinds, aliasing ids.
// opRepeatOverdraw: ONE multi transfer that lists the same (token, nonce) twice, each quantity within the holding (and
// the first strictly below it), their sum above it - to a same-shard and to a cross-shard destination. The second item
// meets the holding the first one left: the call is refused.
func (g *gen) opRepeatOverdraw() bool {
	x, ok := g.pickHeld(func(a []byte, h holding) bool { return h.val.Cmp(big.NewInt(3)) >= 0 && h.val.BitLen() < 60 })
	if !ok {
		return false
	}
	q := new(big.Int).Add(new(big.Int).Rsh(x.h.val, 1), big.NewInt(1)).Bytes() // val/2 + 1
	for _, same := range []bool{true, false} {
		var b []byte
		if same {
			b = g.otherThan(x.a, g.sameShard(x.a))
		} else {
			b = g.otherThan(x.a, g.otherShard(x.a))
		}
		if b == nil {
			continue
		}
		g.do(g.user(oracle.FnMultiTransfer, x.a, x.a, bigGas, b, be(2), x.h.tok, x.h.nb(), q, x.h.tok, x.h.nb(), q))
	}
	return true
}

// opFreezeNFTInFlight: a holder sends ALL it has of an NFT / SFT to a contract on another shard that does not accept
// payments; while the message is under way the system contract freezes that NFT on the sender (an NFT is frozen through
// the identifier token‖nonce: the sender, holding nothing, gets a flagged empty entry under the NFT's key); the delivery is
// refused, the refund comes home to that entry: the sender is restored under the SAME key. Then everything is put back.
func (g *gen) opFreezeNFTInFlight() bool {
	x, ok := g.pickHeld(func(a []byte, h holding) bool { return isNFT(a, h) && !h.frozen && h.val.BitLen() < 60 })
	if !ok || g.shardOf(x.a) < 0 {
		return false
	}
	var c []byte
	for _, k := range g.contracts {
		if g.shardOf(k) >= 0 && g.shardOf(k) != g.shardOf(x.a) {
			c = k
			break
		}
	}
	if c == nil {
		return false
	}
	g.drain()
	g.emitf("payable %s no", hx(c))
	full := append(append([]byte{}, x.h.tok...), x.h.nb()...)
	if g.r.Intn(2) == 0 {
		g.do(g.user(oracle.FnNFTTransfer, x.a, x.a, bigGas, x.h.tok, x.h.nb(), x.h.val.Bytes(), c))
	} else {
		g.do(g.user(oracle.FnMultiTransfer, x.a, x.a, bigGas, c, be(1), x.h.tok, x.h.nb(), x.h.val.Bytes()))
	}
	g.do(g.sys(oracle.FnFreeze, x.a, full))
	g.drain()
	g.do(g.sys(oracle.FnUnFreeze, x.a, full))
	g.emitf("payable %s yes", hx(c))
	return true
}

// opWideNonceOnFungible: the four NFT functions that work on the caller's own entry, called by the holder of an ordinary
// FUNGIBLE balance (with the roles) with a nonce argument wider than 64 bits whose low 64 bits are zero: the nonce is 0,
// there is no NFT - refused, never a nil dereference.
func (g *gen) opWideNonceOnFungible() bool {
	x, ok := g.pickHeld(isFung)
	if !ok {
		return false
	}
	g.setRoles(x.a, x.h.tok, oracle.RoleNFTAddQty, oracle.RoleNFTBurn, oracle.RoleNFTAddURI, oracle.RoleNFTUpdateAtt)
	wide := [][]byte{two64.Bytes(), new(big.Int).Lsh(big.NewInt(1), 65).Bytes(), new(big.Int).Lsh(big.NewInt(1), 72).Bytes(), make([]byte, 9)}
	for _, fn := range []string{oracle.FnNFTAddURI, oracle.FnNFTUpdate, oracle.FnNFTAddQty, oracle.FnNFTBurn} {
		g.do(g.user(fn, x.a, x.a, bigGas, x.h.tok, wide[g.r.Intn(len(wide))], []byte{1}))
	}
	return true
}

func (g *gen) opMulti() bool {
	x, ok := g.pickHeld(anyPos)
	if !ok {
		return false
	}
	var hs []holding
	for _, h := range g.holdings(x.a) {
		if h.val.Sign() > 0 {
			hs = append(hs, h)
		}
	}
	n := 1 + g.r.Intn(4)
	first := hs[g.r.Intn(len(hs))]
	dest := g.destFor(x.a, first.tok, first.nonce, true)
	args := [][]byte{dest, be(uint64(n))}
	for i := 0; i < n; i++ {
		h := hs[g.r.Intn(len(hs))]
		if i > 0 && g.r.Intn(3) == 0 {
			h = first // repeat on purpose
		}
		tok, nb := h.tok, h.nb()
		amt := g.smallPart(h.val, n)
		switch g.r.Intn(40) {
		case 0:
			tok = g.aliasID(tok)
		case 1:
			nb = g.nonceArg()
		case 7, 8:
			tok, nb = g.aliasPair(h)
		case 2, 3:
			if h.nonce == 0 {
				nb = []byte{0}
			}
		case 4, 5, 6:
			amt = g.amtFor(h.val)
		}
		args = append(args, tok, nb, amt)
	}
	switch g.r.Intn(50) {
	case 0:
		args[1] = be(uint64(n + 1))
	case 1:
		args[1] = be(wrapResidues[g.r.Intn(len(wrapResidues))])
	case 2:
		args = args[:len(args)-1]
	}
	args = g.attach(args)
	g.do(g.decorate(g.user(oracle.FnMultiTransfer, x.a, x.a, g.nftGas(oracle.FnMultiTransfer, n), args...)))
	return true
}

// opAlias: a call on a real holding spelled through an aliasing (id, nonce) pair that maps to the same
// storage key (F6 class): every function that looks a holding up.
func (g *gen) opAlias() bool {
	x, ok := g.pickHeld(anyPos)
	if !ok {
		return false
	}
	tok, nb := g.aliasPair(x.h)
	amt := g.smallPart(x.h.val, 1)
	if g.r.Intn(3) == 0 {
		amt = x.h.val.Bytes()
	}
	b := g.otherThan(x.a, nil)
	var sp spec
	switch g.r.Intn(9) {
	case 0, 1:
		sp = g.user(oracle.FnNFTTransfer, x.a, x.a, bigGas, tok, nb, amt, b)
	case 2, 3:
		sp = g.user(oracle.FnMultiTransfer, x.a, x.a, bigGas, b, be(1), tok, nb, amt)
	case 4:
		sp = g.user(oracle.FnNFTAddQty, x.a, x.a, bigGas, tok, nb, amt)
	case 5:
		sp = g.user(oracle.FnNFTBurn, x.a, x.a, bigGas, tok, nb, amt)
	case 6:
		sp = g.user(oracle.FnNFTAddURI, x.a, x.a, bigGas, tok, nb, []byte("u"))
	case 7:
		sp = g.user(oracle.FnNFTUpdate, x.a, x.a, bigGas, tok, nb, []byte("a"))
	default:
		full := append(append([]byte{}, x.h.tok...), x.h.nb()...)
		fn := []string{oracle.FnTransfer, oracle.FnLocalBurn, oracle.FnBurn}[g.r.Intn(3)]
		rcv := b
		if fn == oracle.FnLocalBurn {
			rcv = x.a
		} else if fn == oracle.FnBurn {
			rcv = oracle.ESDTSC
		}
		sp = g.user(fn, x.a, rcv, bigGas, full, amt)
	}
	g.do(sp)
	return true
}

// opAliasRoleHolder: the holder of the NFT (T, n) is ALSO given the owner-side roles of a token id whose (id, nonce) pair
// aliases its holding's storage key (T‖n with nonce 0, or T‖n[:k] with nonce n[k:]), then runs every own-holding function
// through that spelling: the role check passes, so only the holding look-up itself stands between the call and a foreign
// entry (supply, footprint, well-formedness). No random choice beyond the pick: the same calls for every seed.
func (g *gen) opAliasRoleHolder() bool {
	x, ok := g.pickHeld(isNFT)
	if !ok {
		return false
	}
	full := append(append([]byte{}, x.h.tok...), x.h.nb()...)
	pairs := [][2][]byte{{full, {}}, {full, {0}}}
	if nb := x.h.nb(); len(nb) > 1 {
		pairs = append(pairs, [2][]byte{full[:len(x.h.tok)+1], append([]byte{}, nb[1:]...)})
	}
	for _, p := range pairs {
		tok, nb := p[0], p[1]
		g.setRoles(x.a, tok, oracle.RoleNFTAddQty, oracle.RoleNFTBurn, oracle.RoleNFTAddURI, oracle.RoleNFTUpdateAtt) // only what is missing (App. C E5)
		g.do(g.user(oracle.FnNFTAddQty, x.a, x.a, bigGas, tok, nb, []byte{5}))
		g.do(g.user(oracle.FnNFTBurn, x.a, x.a, bigGas, tok, nb, []byte{1}))
		g.do(g.user(oracle.FnNFTAddURI, x.a, x.a, bigGas, tok, nb, []byte("u")))
		g.do(g.user(oracle.FnNFTUpdate, x.a, x.a, bigGas, tok, nb, []byte("a")))
	}
	return true
}

// opAliasTokens: two REAL tokens whose storage keys alias (C11: "token ids that alias other keys when concatenated with a
// nonce" — in the state, not only in the arguments; reachable with ESDTSetRole / ESDTLocalMint / ESDTNFTCreate alone):
//   (a) a fungible token T‖n next to the NFT (T, n): the fungible one is credited onto the NFT's holder (F9);
//   (b) an NFT collection T‖01 next to the NFT (T, 0x01‖k): both entries carry metadata, with different nonces, under one key;
// then credits of one onto the holder of the other — inside a same-shard sender call or as a delivery on another shard.
func (g *gen) opAliasTokens() bool {
	x, ok := g.pickHeld(isNFT)
	if !ok {
		return false
	}
	if g.r.Intn(2) == 0 {
		b := g.otherThan(x.a, nil)
		f := append(append([]byte{}, x.h.tok...), x.h.nb()...)
		g.do(g.sys(oracle.FnSetRole, b, f, []byte(oracle.RoleLocalMint)))
		g.do(g.user(oracle.FnLocalMint, b, b, bigGas, f, []byte{9}))
		switch g.r.Intn(3) {
		case 0:
			g.do(g.user(oracle.FnTransfer, b, x.a, bigGas, f, []byte{1}))
		case 1:
			g.do(g.user(oracle.FnMultiTransfer, b, b, bigGas, x.a, be(1), f, []byte{}, []byte{1}))
		default:
			g.do(g.user(oracle.FnMultiTransfer, b, b, bigGas, x.a, be(2), f, []byte{0}, []byte{2}, f, []byte{}, []byte{1}))
		}
		// and the NFT onto the holder of the fungible one
		g.do(g.user(oracle.FnNFTTransfer, x.a, x.a, bigGas, x.h.tok, x.h.nb(), []byte{1}, b))
		if g.r.Intn(3) == 0 {
			// the pause flag of the fungible id T‖n sits under the NFT's own key: the second gate of the NFT save sees it
			sh := g.shardOf(x.a)
			g.do(spec{shard: sh, fn: oracle.FnPause, caller: oracle.ESDTSC, rcv: oracle.SystemAccount, args: [][]byte{f}})
			g.do(g.user(oracle.FnNFTTransfer, x.a, x.a, bigGas, x.h.tok, x.h.nb(), []byte{1}, b))
			g.do(g.user(oracle.FnNFTBurn, x.a, x.a, bigGas, x.h.tok, x.h.nb(), []byte{1}))
			g.do(spec{shard: sh, fn: oracle.FnUnPause, caller: oracle.ESDTSC, rcv: oracle.SystemAccount, args: [][]byte{f}})
		}
		return true
	}
	t := x.h.tok
	cr := g.creatorOf(t)
	if cr == nil {
		return false
	}
	g.aliasN++
	k := uint64(g.aliasN%200 + 1)
	// the creator's counter is set to 0x0100 + k − 1: its next NFT is (T, 0x01‖k)
	g.emitf("raw %d %s %s %s", g.shardOf(cr), hx(cr), hx([]byte(oracle.NoncePrefix+string(t))), hx(be(256+k-1)))
	g.do(g.user(oracle.FnNFTCreate, cr, cr, bigGas, g.createArgs(t, 1, 1)...))
	t2 := append(append([]byte{}, t...), 1)
	c2 := g.otherThan(cr, nil)
	g.do(g.sys(oracle.FnSetRole, c2, t2, []byte(oracle.RoleNFTCreate), []byte(oracle.RoleNFTAddQty)))
	if k > 1 {
		g.emitf("raw %d %s %s %s", g.shardOf(c2), hx(c2), hx([]byte(oracle.NoncePrefix+string(t2))), hx(be(k-1)))
	}
	g.do(g.user(oracle.FnNFTCreate, c2, c2, bigGas, g.createArgs(t2, uint64(1+g.r.Intn(2)), 1)...))
	// (T‖01, k) onto the holder of (T, 0x01‖k) and the other way round
	if g.r.Intn(2) == 0 {
		g.do(g.user(oracle.FnNFTTransfer, c2, c2, bigGas, t2, be(k), []byte{1}, cr))
	} else {
		g.do(g.user(oracle.FnMultiTransfer, c2, c2, bigGas, cr, be(1), t2, be(k), []byte{1}))
	}
	if g.r.Intn(2) == 0 {
		g.do(g.user(oracle.FnNFTTransfer, cr, cr, bigGas, t, be(256+k), []byte{1}, c2))
	} else {
		g.do(g.user(oracle.FnMultiTransfer, cr, cr, bigGas, c2, be(1), t, be(256+k), []byte{1}))
	}
	return true
}

// mintAmount: {0, 1, bal, bal+1, 2^k, 100-byte, 101-byte, random}.
func (g *gen) supplyAmount(bal *big.Int) []byte {
	switch g.r.Intn(16) {
	case 0:
		return []byte{}
	case 1:
		return []byte{0}
	case 2, 3:
		return []byte{1}
	case 4, 5:
		return bigBytes(bal)
	case 6:
		return bigBytes(new(big.Int).Add(bal, big.NewInt(1)))
	case 7, 8:
		return new(big.Int).Lsh(big.NewInt(1), uint(g.r.Intn(200))).Bytes()
	case 9:
		return bytes.Repeat([]byte{0xff}, 100)
	case 10:
		return bytes.Repeat([]byte{0x01}, 101)
	default:
		return be(uint64(1 + g.r.Intn(5000)))
	}
}

func (g *gen) opMint() bool {
	if len(g.fung) == 0 {
		return false
	}
	tok := g.pick(g.fung)
	l := g.withRole(tok, oracle.RoleLocalMint)
	if len(l) == 0 {
		return false
	}
	a := g.pick(l)
	if g.focusTTL > 0 && g.focusAddr != nil && g.r.Intn(2) == 0 && has(g.rolesOf(g.focusAddr, tok), oracle.RoleLocalMint) {
		a = g.focusAddr
	}
	g.do(g.decorate(g.user(oracle.FnLocalMint, a, a, g.gasFor(g.cost(oracle.FnLocalMint)), tok, g.supplyAmount(g.holdingOf(a, tok, 0)))))
	return true
}

func (g *gen) opLocalBurn() bool {
	x, ok := g.pickHeld(func(a []byte, h holding) bool {
		return isFung(a, h) && has(g.rolesOf(a, h.tok), oracle.RoleLocalBurn)
	})
	if !ok {
		return false
	}
	g.do(g.decorate(g.user(oracle.FnLocalBurn, x.a, x.a, g.gasFor(g.cost(oracle.FnLocalBurn)), x.h.tok, g.amtFor(x.h.val))))
	return true
}

func (g *gen) opESDTBurn() bool {
	x, ok := g.pickHeld(isFung)
	if !ok {
		return false
	}
	g.do(g.decorate(g.user(oracle.FnBurn, x.a, oracle.ESDTSC, g.gasFor(g.cost(oracle.FnBurn)), x.h.tok, g.amtFor(x.h.val))))
	return true
}

func (g *gen) opCreate() bool {
	toks := append(append([][]byte{}, g.sft...), g.nft...)
	if len(toks) == 0 {
		return false
	}
	tok := g.pick(toks)
	a := g.creatorOf(tok)
	if a == nil {
		return false
	}
	q := uint64(1)
	isSemi := false
	for _, t := range g.sft {
		if bytes.Equal(t, tok) {
			isSemi = true
		}
	}
	if isSemi {
		q = uint64(2 + g.r.Intn(50))
	}
	nURI := 1 + g.r.Intn(3)
	if g.r.Intn(12) == 0 {
		nURI = 0 // fewer than 7 arguments: rejected
	}
	args := g.createArgs(tok, q, nURI)
	switch g.r.Intn(20) {
	case 0:
		args[1] = []byte{}
	case 1:
		args[1] = new(big.Int).Lsh(big.NewInt(1), uint(g.r.Intn(130))).Bytes()
	case 2:
		args[3] = be(10001)
	}
	gas := uint64(bigGas)
	if g.r.Intn(8) == 0 {
		gas = g.gasFor(g.cost(oracle.FnNFTCreate))
	}
	g.do(g.decorate(g.user(oracle.FnNFTCreate, a, a, gas, args...)))
	return true
}

func (g *gen) nftOwnOp(fn, role string, withRoleOnly bool, third func(h holding) []byte) bool {
	x, ok := g.pickHeld(func(a []byte, h holding) bool {
		return isNFT(a, h) && (!withRoleOnly || has(g.rolesOf(a, h.tok), role))
	})
	if !ok {
		return false
	}
	tok, nb := x.h.tok, x.h.nb()
	switch g.r.Intn(24) {
	case 0, 1, 2:
		nb = g.nonceArg()
	case 3:
		tok, nb = g.aliasPair(x.h)
	case 4:
		if y, ok2 := g.pickHeld(isFung); ok2 { // NFT function on a fungible holding
			x = y
			tok, nb = g.aliasPair(y.h)
		}
	}
	g.do(g.decorate(g.user(fn, x.a, x.a, g.gasFor(g.cost(fn)+2000), tok, nb, third(x.h))))
	return true
}

func (g *gen) opAddQty() bool {
	return g.nftOwnOp(oracle.FnNFTAddQty, oracle.RoleNFTAddQty, g.r.Intn(6) > 0, func(h holding) []byte { return g.supplyAmount(h.val) })
}

func (g *gen) opNFTBurn() bool {
	return g.nftOwnOp(oracle.FnNFTBurn, oracle.RoleNFTBurn, g.r.Intn(6) > 0, func(h holding) []byte { return g.amtFor(h.val) })
}

func (g *gen) opAddURI() bool {
	return g.nftOwnOp(oracle.FnNFTAddURI, oracle.RoleNFTAddURI, g.r.Intn(4) > 0, func(h holding) []byte {
		return [][]byte{[]byte("uriX"), {}, []byte("u")}[g.r.Intn(3)]
	})
}

func (g *gen) opUpdateAttr() bool {
	return g.nftOwnOp(oracle.FnNFTUpdate, oracle.RoleNFTUpdateAtt, g.r.Intn(4) > 0, func(h holding) []byte {
		return [][]byte{[]byte("newattr"), {}, bytes.Repeat([]byte{7}, 40)}[g.r.Intn(3)]
	})
}

// --- gates ---------------------------------------------------------------------

func (g *gen) setFocus(a, tok []byte) {
	g.focusAddr, g.focusTok, g.focusTTL = a, tok, 6
}

// opFreezeToggle: freeze / unfreeze / wipe by the system contract, on an actual holder mostly.
func (g *gen) opFreezeToggle() bool {
	var a, tok []byte
	if x, ok := g.pickHeld(anyPos); ok && g.r.Intn(5) > 0 {
		a, tok = x.a, x.h.tok
	} else if t := g.allTokens(); len(t) > 0 {
		a, tok = g.pick(g.accounts), g.pick(t)
	} else {
		return false
	}
	// prefer accounts that are currently frozen for unfreeze / wipe
	fn := []string{oracle.FnFreeze, oracle.FnFreeze, oracle.FnUnFreeze, oracle.FnWipe}[g.r.Intn(4)]
	if fn != oracle.FnFreeze {
		if fz := g.holders(func(_ []byte, h holding) bool { return h.frozen }); len(fz) > 0 && g.r.Intn(4) > 0 {
			x := fz[g.r.Intn(len(fz))]
			a, tok = x.a, x.h.tok
		}
	}
	g.do(g.sys(fn, a, tok))
	g.setFocus(a, tok)
	return true
}

func (g *gen) pausedTokens(shard int) [][]byte {
	var out [][]byte
	sys := g.w.Account(shard, oracle.SystemAccount)
	if sys == nil {
		return nil
	}
	for _, t := range g.allTokens() {
		if v := sys.Get(oracle.EsdtPrefix + string(t)); len(v) == 2 && v[0]&1 == 1 {
			out = append(out, t)
		}
	}
	return out
}

// opPauseToggle: pause / unpause a token on one shard (the system contract notifies shards one by one).
func (g *gen) opPauseToggle() bool {
	t := g.allTokens()
	if len(t) == 0 {
		return false
	}
	shard := g.r.Intn(g.nsh)
	paused := g.pausedTokens(shard)
	fn, tok := oracle.FnPause, g.pick(t)
	if len(paused) > 0 && (len(paused) >= 2 || g.r.Intn(2) == 0) {
		fn, tok = oracle.FnUnPause, g.pick(paused)
	}
	rcv := oracle.SystemAccount
	if g.r.Intn(4) == 0 {
		// another spelling of the system address (the library accepts any address whose first 30 bytes are 0xff, e.g. the
		// per-shard form ff…ff‖shard): the flag must land where every other function reads it all the same
		rcv = append([]byte{}, oracle.SystemAccount...)
		rcv[31] = byte(shard)
		if g.r.Intn(3) == 0 {
			rcv[30], rcv[31] = byte(g.r.Intn(256)), byte(g.r.Intn(256))
		}
	}
	g.do(spec{shard: shard, fn: fn, caller: oracle.ESDTSC, rcv: rcv, args: [][]byte{tok}})
	g.setFocus(nil, tok)
	return true
}

// opPauseSpelled: pause sent to the per-shard spelling of the system address, a transfer of the token (must be refused),
// un-pause sent to yet another spelling, the transfer again (must pass). Same calls for every seed beyond the pick.
func (g *gen) opPauseSpelled() bool {
	x, ok := g.pickHeld(isFung)
	if !ok {
		return false
	}
	sh := g.shardOf(x.a)
	if sh < 0 {
		return false
	}
	b := g.otherThan(x.a, g.sameShard(x.a))
	if b == nil {
		b = g.otherThan(x.a, nil)
	}
	sp1 := append([]byte{}, oracle.SystemAccount...)
	sp1[31] = byte(sh)
	sp2 := append([]byte{}, oracle.SystemAccount...)
	sp2[30], sp2[31] = 0, 1
	g.do(spec{shard: sh, fn: oracle.FnPause, caller: oracle.ESDTSC, rcv: sp1, args: [][]byte{x.h.tok}})
	g.do(g.user(oracle.FnTransfer, x.a, b, bigGas, x.h.tok, []byte{1}))
	g.do(spec{shard: sh, fn: oracle.FnUnPause, caller: oracle.ESDTSC, rcv: sp2, args: [][]byte{x.h.tok}})
	g.do(g.user(oracle.FnTransfer, x.a, b, bigGas, x.h.tok, []byte{1}))
	return true
}

// opPayableFlip changes the payable oracle's answer for an acting account.
func (g *gen) opPayableFlip() bool {
	a := g.pick(g.accounts)
	if g.r.Intn(3) > 0 {
		a = g.pick(g.contracts)
	}
	ans := []string{"yes", "yes", "no", "no", "err"}[g.r.Intn(5)]
	g.emitf("payable %s %s", hx(a), ans)
	return true
}

// lateNetwork keeps up to ~6 messages pending and delivers late.
func (g *gen) lateNetwork() bool {
	n := len(g.c.Pending()) + len(g.c.RefundPending())
	if n == 0 {
		return false
	}
	if n < 6 && g.r.Intn(3) > 0 {
		return false
	}
	return g.network()
}

// ---------------------------------------------------------------------------
// scenario calls: for each of the 23 functions a call that is meant to succeed on the current state
// ---------------------------------------------------------------------------

// scenario returns candidate calls of fn that are likely to succeed now (callers verify with Probe).
func (g *gen) scenario(fn string) (spec, bool) {
	switch fn {
	case oracle.FnTransfer:
		if x, ok := g.pickHeld(isFung); ok {
			b := g.otherThan(x.a, nil)
			args := [][]byte{x.h.tok, g.partOrAll(x.h.val, 3)}
			if oracle.IsContract(b) && g.r.Intn(2) == 0 {
				args = append(args, []byte("fn"), []byte{1})
			}
			return g.user(fn, x.a, b, bigGas, args...), true
		}
	case oracle.FnNFTTransfer:
		if x, ok := g.pickHeld(isNFT); ok {
			b := g.otherThan(x.a, nil)
			args := [][]byte{x.h.tok, x.h.nb(), g.partOrAll(x.h.val, 2), b}
			if oracle.IsContract(b) && g.r.Intn(2) == 0 {
				args = append(args, []byte("fn"))
			}
			return g.user(fn, x.a, x.a, bigGas, args...), true
		}
	case oracle.FnMultiTransfer:
		if x, ok := g.pickHeld(anyPos); ok {
			hs := g.holdings(x.a)
			b := g.otherThan(x.a, nil)
			n := 1 + g.r.Intn(3)
			args := [][]byte{b, be(uint64(n))}
			for i := 0; i < n; i++ {
				h := hs[g.r.Intn(len(hs))]
				if h.val.Sign() <= 0 {
					h = x.h
				}
				args = append(args, h.tok, h.nb(), g.smallPart(h.val, n+1))
			}
			return g.user(fn, x.a, x.a, bigGas, args...), true
		}
	case oracle.FnLocalMint:
		if len(g.fung) > 0 {
			tok := g.pick(g.fung)
			if l := g.withRole(tok, oracle.RoleLocalMint); len(l) > 0 {
				a := g.pick(l)
				return g.user(fn, a, a, bigGas, tok, be(uint64(1+g.r.Intn(1000)))), true
			}
		}
	case oracle.FnLocalBurn:
		if x, ok := g.pickHeld(func(a []byte, h holding) bool {
			return isFung(a, h) && has(g.rolesOf(a, h.tok), oracle.RoleLocalBurn)
		}); ok {
			return g.user(fn, x.a, x.a, bigGas, x.h.tok, g.partOrAll(x.h.val, 3)), true
		}
	case oracle.FnBurn:
		if x, ok := g.pickHeld(isFung); ok {
			return g.user(fn, x.a, oracle.ESDTSC, bigGas, x.h.tok, g.partOrAll(x.h.val, 3)), true
		}
	case oracle.FnNFTCreate:
		toks := append(append([][]byte{}, g.sft...), g.nft...)
		if len(toks) > 0 {
			tok := g.pick(toks)
			if a := g.creatorOf(tok); a != nil {
				return g.user(fn, a, a, bigGas, g.createArgs(tok, 1, g.r.Intn(3))...), true
			}
		}
	case oracle.FnNFTAddQty, oracle.FnNFTBurn, oracle.FnNFTAddURI, oracle.FnNFTUpdate:
		role := map[string]string{oracle.FnNFTAddQty: oracle.RoleNFTAddQty, oracle.FnNFTBurn: oracle.RoleNFTBurn,
			oracle.FnNFTAddURI: oracle.RoleNFTAddURI, oracle.FnNFTUpdate: oracle.RoleNFTUpdateAtt}[fn]
		if x, ok := g.pickHeld(func(a []byte, h holding) bool { return isNFT(a, h) && has(g.rolesOf(a, h.tok), role) }); ok {
			third := []byte{1}
			if fn == oracle.FnNFTAddURI || fn == oracle.FnNFTUpdate {
				third = []byte("data" + string(rune('a'+g.r.Intn(26))))
			}
			return g.user(fn, x.a, x.a, bigGas, x.h.tok, x.h.nb(), third), true
		}
	case oracle.FnHandOver:
		toks := append(append([][]byte{}, g.sft...), g.nft...)
		if len(toks) > 0 {
			tok := g.pick(toks)
			if a := g.creatorOf(tok); a != nil && !g.handOverInFlight(tok) {
				if b := g.otherThan(a, nil); b != nil {
					return g.sys(fn, a, tok, b), true
				}
			}
		}
	case oracle.FnSetRole:
		if t := g.allTokens(); len(t) > 0 {
			tok, a := g.pick(t), g.pick(g.accounts)
			have := g.rolesOf(a, tok)
			args := [][]byte{tok}
			for _, r := range []string{oracle.RoleLocalMint, oracle.RoleLocalBurn, oracle.RoleNFTAddQty, oracle.RoleNFTBurn, oracle.RoleNFTAddURI, oracle.RoleNFTUpdateAtt} {
				if !has(have, r) && g.r.Intn(2) == 0 {
					args = append(args, []byte(r))
				}
			}
			if len(args) > 1 {
				return g.sys(fn, a, args...), true
			}
		}
	case oracle.FnUnSetRole:
		if t := g.allTokens(); len(t) > 0 {
			// unset 1..3 roles the account really holds (never the create role), sometimes an unknown one too
			for try := 0; try < 8; try++ {
				tok, a := g.pick(t), g.pick(g.accounts)
				var held [][]byte
				for _, r := range g.rolesOf(a, tok) {
					if r != oracle.RoleNFTCreate {
						held = append(held, []byte(r))
					}
				}
				if len(held) == 0 {
					continue
				}
				g.r.Shuffle(len(held), func(i, j int) { held[i], held[j] = held[j], held[i] })
				n := 1 + g.r.Intn(3)
				if n > len(held) {
					n = len(held)
				}
				args := append([][]byte{tok}, held[:n]...)
				if g.r.Intn(4) == 0 {
					args = append(args, []byte("ESDTRoleUnknown"))
				}
				return g.sys(fn, a, args...), true
			}
			return g.sys(fn, g.pick(g.accounts), g.pick(t), []byte(oracle.RoleNFTAddURI)), true
		}
	case oracle.FnFreeze, oracle.FnUnFreeze:
		if x, ok := g.pickHeld(isFung); ok {
			return g.sys(fn, x.a, x.h.tok), true
		}
	case oracle.FnWipe:
		if fz := g.holders(func(_ []byte, h holding) bool { return h.frozen }); len(fz) > 0 {
			x := fz[g.r.Intn(len(fz))]
			return g.sys(fn, x.a, x.h.tok), true
		}
		if x, ok := g.pickHeld(isFung); ok { // freeze first, then wipe
			g.do(g.sys(oracle.FnFreeze, x.a, x.h.tok))
			return g.sys(fn, x.a, x.h.tok), true
		}
	case oracle.FnPause, oracle.FnUnPause:
		if t := g.allTokens(); len(t) > 0 {
			shard, tok := g.r.Intn(g.nsh), g.pick(t)
			if p := g.pausedTokens(shard); fn == oracle.FnUnPause && len(p) > 0 {
				tok = g.pick(p)
			}
			return spec{shard: shard, fn: fn, caller: oracle.ESDTSC, rcv: oracle.SystemAccount, args: [][]byte{tok}}, true
		}
	case oracle.FnSaveKeyValue:
		a := g.pick(g.users)
		args := [][]byte{[]byte("key" + string(rune('a'+g.r.Intn(26)))), []byte("value" + string(rune('a'+g.r.Intn(26))))}
		if g.r.Intn(2) == 0 {
			args = append(args, []byte("k2"), bytes.Repeat([]byte{9}, g.r.Intn(20)))
		}
		return g.user(fn, a, a, bigGas, args...), true
	case oracle.FnChangeOwner:
		c := g.pick(g.contracts)
		if acc := g.acct(c); acc != nil && len(acc.Owner()) == 32 && g.shardOf(acc.Owner()) >= 0 {
			// the new owner is a user or (one time in four) another contract
			next := g.pick(g.users)
			if g.r.Intn(4) == 0 {
				next = g.pick(g.accounts)
			}
			return g.secondLeg(g.user(fn, acc.Owner(), c, bigGas, next)), true
		}
	case oracle.FnClaim:
		c := g.pick(g.contracts)
		if acc := g.acct(c); acc != nil && len(acc.Owner()) == 32 && g.shardOf(acc.Owner()) >= 0 {
			return g.secondLeg(g.user(fn, acc.Owner(), c, bigGas)), true
		}
	case oracle.FnSetUserName:
		d := g.pick(g.dns)
		u := g.pick(g.users)
		return g.user(fn, d, u, bigGas, []byte("name"+string(rune('a'+g.r.Intn(26))))), true
	}
	return spec{}, false
}

// secondLeg: an account-level call whose receiver lives on another shard travels there as the transaction itself; one
// time in two the call is the leg executed on the receiver's shard (sender account absent) instead of the first one.
func (g *gen) secondLeg(sp spec) spec {
	if d := g.shardOf(sp.rcv); d >= 0 && d != sp.shard && g.r.Intn(2) == 0 {
		sp.shard = d
	}
	return sp
}

// opSysTransfer: the ESDT system contract sends a fungible token to an account (how issued / minted supply reaches a
// shard): executed on the receiver's shard, no payability check for this caller, the freeze / pause gates of the
// receiving account apply.
func (g *gen) opSysTransfer() bool {
	if len(g.fung) == 0 {
		return false
	}
	tok := g.pick(g.fung)
	rcv := g.pick(g.accounts)
	sp := g.sys(oracle.FnTransfer, rcv, tok, []byte{byte(1 + g.r.Intn(200))})
	if g.r.Intn(4) == 0 {
		sp.args = append(sp.args, []byte("init"), []byte{1})
	}
	sp.gas = bigGas
	g.do(sp)
	return true
}

// opHandOverFresh: the create role of a token NOBODY has created anything of yet (counter 0, travels as an empty argument)
// is handed over, preferably to another shard, and the message delivered at once: the continuation must be accepted.
func (g *gen) opHandOverFresh() bool {
	tok := g.newTokenID("")
	a := g.pick(g.accounts)
	g.sft = append(g.sft, tok)
	if !g.setRoles(a, tok, nftRoles...) {
		return false
	}
	b := g.otherThan(a, func(x []byte) bool { return g.shardOf(x) != g.shardOf(a) })
	if b == nil {
		b = g.otherThan(a, nil)
	}
	g.do(g.sys(oracle.FnHandOver, a, tok, b))
	g.drainHandOvers()
	g.do(g.user(oracle.FnNFTCreate, b, b, bigGas, g.createArgs(tok, 1, 1)...))
	return true
}

// opUnfrozenDrain: a fungible holder is frozen and unfrozen again (its entry now carries the flag bytes `0000`, not an
// empty field), then spends its WHOLE balance — through the multi transfer, which saves fungible entries with the NFT
// helper, or through the plain transfer; the in-shard receiver, which got a copy of those flag bytes, drains as well.
// An emptied entry must be gone, whatever its flag bytes look like.
func (g *gen) opUnfrozenDrain() bool {
	x, ok := g.pickHeld(isFung)
	if !ok {
		return false
	}
	g.do(g.sys(oracle.FnFreeze, x.a, x.h.tok))
	g.do(g.sys(oracle.FnUnFreeze, x.a, x.h.tok))
	b := g.otherThan(x.a, nil)
	if g.r.Intn(2) == 0 {
		if c := g.otherThan(x.a, g.sameShard(x.a)); c != nil {
			b = c
		}
	}
	full := g.holdingOf(x.a, x.h.tok, 0).Bytes()
	if g.r.Intn(3) > 0 {
		g.do(g.user(oracle.FnMultiTransfer, x.a, x.a, bigGas, b, be(1), x.h.tok, []byte{}, full))
	} else {
		g.do(g.user(oracle.FnTransfer, x.a, b, bigGas, x.h.tok, full))
	}
	g.drain()
	if rest := g.holdingOf(b, x.h.tok, 0); rest.Sign() > 0 && g.r.Intn(2) == 0 {
		g.do(g.user(oracle.FnMultiTransfer, b, b, bigGas, x.a, be(1), x.h.tok, []byte{}, rest.Bytes()))
		g.drain()
	}
	return true
}

// opPayableMatrix: a destination the payability oracle refuses, then PLAIN transfers to it (argument count exactly at the
// minimum, direct / asynchronous call, ordinary caller) with and without the return-after-error flag, for the three transfer
// functions, fungible and NFT items, same shard and (delivered at once) cross shard: none may be credited.
func (g *gen) opPayableMatrix() bool {
	if len(g.contracts) == 0 {
		return false
	}
	d := g.pick(g.contracts)
	g.emitf("payable %s %s", hx(d), []string{"no", "no", "err"}[g.r.Intn(3)])
	for k := 0; k < 4; k++ {
		x, ok := g.pickHeld(anyPos)
		if !ok || bytes.Equal(x.a, d) {
			continue
		}
		var sp spec
		switch {
		case x.h.nonce == 0 && g.r.Intn(2) == 0:
			sp = g.user(oracle.FnTransfer, x.a, d, bigGas, x.h.tok, []byte{1})
		case x.h.nonce == 0:
			sp = g.user(oracle.FnMultiTransfer, x.a, x.a, bigGas, d, be(1), x.h.tok, []byte{}, []byte{1})
		case g.r.Intn(2) == 0:
			sp = g.user(oracle.FnNFTTransfer, x.a, x.a, bigGas, x.h.tok, x.h.nb(), []byte{1}, d)
		default:
			sp = g.user(oracle.FnMultiTransfer, x.a, x.a, bigGas, d, be(1), x.h.tok, x.h.nb(), []byte{1})
		}
		sp.rae = g.r.Intn(2) == 0
		sp.ct = g.r.Intn(2)
		g.do(sp)
	}
	g.drain()
	if g.r.Intn(2) == 0 {
		g.emitf("payable %s yes", hx(d))
	}
	return true
}

// opThinSecondLeg: a cross-shard ESDTTransfer with an attached call to a contract, with so little gas that the leg on the
// destination shard runs with less than the function's own cost (nothing left, or a few units).
func (g *gen) opThinSecondLeg() bool {
	x, ok := g.pickHeld(isFung)
	if !ok {
		return false
	}
	var l [][]byte
	for _, c := range g.contracts {
		if g.shardOf(c) != g.shardOf(x.a) {
			l = append(l, c)
		}
	}
	if len(l) == 0 {
		return false
	}
	c := g.cost(oracle.FnTransfer)
	gas := c + uint64(g.r.Intn(int(c)+1))
	if g.r.Intn(3) == 0 {
		gas = c
	}
	args := [][]byte{x.h.tok, []byte{1}, []byte("doSomething")}
	if g.r.Intn(2) == 0 {
		args = append(args, []byte{7})
	}
	g.do(g.user(oracle.FnTransfer, x.a, g.pick(l), gas, args...))
	g.drain()
	return true
}

// opFrozenZeroCredit: an account is frozen for a token it does not hold (the entry {value 0, frozen} is persisted), then
// credited under the return-after-error flag (the only credit a frozen entry accepts), then unfrozen.
func (g *gen) opFrozenZeroCredit() bool {
	x, ok := g.pickHeld(isFung)
	if !ok {
		return false
	}
	var l [][]byte
	for _, a := range g.accounts {
		if !bytes.Equal(a, x.a) && g.shardOf(a) == g.shardOf(x.a) && g.holdingOf(a, x.h.tok, 0).Sign() == 0 {
			l = append(l, a)
		}
	}
	if len(l) == 0 {
		return false
	}
	a := g.pick(l)
	g.do(g.sys(oracle.FnFreeze, a, x.h.tok))
	sp := g.user(oracle.FnTransfer, x.a, a, bigGas, x.h.tok, []byte{1})
	sp.rae = true
	sp.ct = 2
	g.do(sp)
	g.do(g.sys(oracle.FnUnFreeze, a, x.h.tok))
	return true
}

func (g *gen) handOverInFlight(tok []byte) bool {
	for _, m := range g.c.Pending() {
		if m.Fn == oracle.FnHandOver && len(m.Args) > 0 && bytes.Equal(m.Args[0], tok) {
			return true
		}
	}
	return false
}

// probe runs sp on the current state without changing it.
func (g *gen) probe(sp spec, fault int) *world.CallResult {
	if sp.shard < 0 || sp.shard >= g.nsh {
		return &world.CallResult{Status: "badop"}
	}
	return g.w.Probe(sp.call(), fault)
}

// charge computes gas - remaining - forwarded of an ok result.
func charge(sp spec, res *world.CallResult) uint64 {
	c := sp.gas - res.Out.GasRemaining
	for _, oa := range res.Out.OutputAccounts {
		if oa == nil {
			continue
		}
		for _, t := range oa.OutputTransfers {
			c -= t.GasLimit
		}
	}
	return c
}
