package main

import (
	"bufio"
	"bytes"
	"encoding/hex"
	"fmt"
	"math/big"
	"math/rand"
	"sort"
	"strconv"
	"strings"

	"verifharness/oracle"
	"verifharness/world"
)

// ---------------------------------------------------------------------------
// engine: one private world + checker, every emitted line is executed at once
// ---------------------------------------------------------------------------

type fnStats map[string]int

type gen struct {
	aliasN   int
	r        *rand.Rand
	s        *oracle.Session
	w        *world.World
	c        *oracle.Checker
	profile  string
	seed     int64
	limit    int
	thorough bool

	ops, obs *bufio.Writer
	nLines   int
	nOps     int // non-comment lines
	nCalls   int
	byFn     map[string]fnStats
	distinct map[string]bool
	samples  []string
	exh      *bool // set by exhaustive profiles

	// universe
	nsh       int
	users     [][]byte
	contracts [][]byte
	accounts  [][]byte // users + contracts: the accounts that act
	meta      []byte   // a contract on the metachain
	dns       [][]byte
	sink      map[string]bool // accounts that never send (hold forged entries)
	nameChg   bool

	// tokens (well-formed ids issued by the system contract)
	fung, sft, nft [][]byte

	gas map[string]uint64 // schedule in force: "BuiltInCost.ESDTTransfer" -> cost

	focusAddr []byte // gates: account / token the next ops should prefer
	focusTok  []byte
	focusTTL  int
}

func newGen(profile string, seed int64, limit int, ops, obs *bufio.Writer) *gen {
	// the profile name is mixed into the seed so that one seed gives different shapes (shard count, …) per profile
	h := int64(0)
	for _, c := range profile {
		h = h*131 + int64(c)
	}
	g := &gen{r: rand.New(rand.NewSource(seed*1000003 + h%1000003)), s: oracle.NewSession(), profile: profile, seed: seed, limit: limit, ops: ops, obs: obs,
		byFn: map[string]fnStats{}, distinct: map[string]bool{}, sink: map[string]bool{}}
	g.w, g.c = g.s.W, g.s.C
	return g
}

// emit executes one line and records op + observation.
func (g *gen) emit(line string) string {
	obs := g.s.Exec(line)
	g.ops.WriteString(line)
	g.ops.WriteByte('\n')
	g.obs.WriteString(obs)
	g.obs.WriteByte('\n')
	g.nLines++
	if line == "" || line[0] != '#' {
		g.nOps++
	}
	return obs
}

func (g *gen) emitf(format string, a ...interface{}) string { return g.emit(fmt.Sprintf(format, a...)) }

func (g *gen) full() bool { return g.nOps >= g.limit }

func hx(b []byte) string {
	if len(b) == 0 {
		return "-"
	}
	return hex.EncodeToString(b)
}

// ---------------------------------------------------------------------------
// calls
// ---------------------------------------------------------------------------

type spec struct {
	shard     int
	fn        string
	caller    []byte
	rcv       []byte
	gas       uint64
	gasLocked uint64
	ct        int
	rae       bool
	value     string
	args      [][]byte
}

func (sp spec) line() string {
	v := sp.value
	if v == "" {
		v = "0"
	}
	return oracle.CallLine(sp.shard, sp.fn, sp.caller, sp.rcv, sp.gas, sp.gasLocked, sp.ct, sp.rae, v, sp.args)
}

func (sp spec) call() *world.Call {
	v, ok := new(big.Int).SetString(sp.value, 10)
	if !ok {
		v = new(big.Int)
	}
	return &world.Call{Shard: sp.shard, Fn: sp.fn, Caller: sp.caller, Rcv: sp.rcv, Gas: sp.gas, GasLocked: sp.gasLocked,
		CallType: sp.ct, RAE: sp.rae, CallValue: v, Args: sp.args}
}

// emitCall emits a call line (no annotation) and updates the statistics.
func (g *gen) emitCall(line string) *world.CallResult {
	g.emit(line)
	res := g.w.LastCall()
	g.nCalls++
	if len(g.samples) < 5 {
		g.samples = append(g.samples, line)
	}
	c, ok := g.w.ParseCallLine(line)
	if !ok || res == nil {
		return res
	}
	if g.byFn[c.Fn] == nil {
		g.byFn[c.Fn] = fnStats{}
	}
	g.byFn[c.Fn][res.Status]++
	side := "none"
	ps, pd := g.w.Present(c.Shard, c.Caller), g.w.Present(c.Shard, c.Rcv)
	switch {
	case ps && pd:
		side = "both"
	case ps:
		side = "snd"
	case pd:
		side = "dst"
	}
	g.distinct[fmt.Sprintf("%s|%s|%s|%v", c.Fn, res.Status, side, len(res.Diff) > 0)] = true
	return res
}

// do executes a user- or system-originated call. System-contract calls are marked strict.
func (g *gen) do(sp spec) *world.CallResult {
	if sp.shard < 0 || sp.shard >= g.nsh {
		return nil
	}
	if bytes.Equal(sp.caller, oracle.ESDTSC) {
		g.emit("#@ strict")
	}
	return g.emitCall(sp.line())
}

func isOK(res *world.CallResult) bool { return res != nil && res.Status == "ok" }

// user builds a call executed on the caller's shard (E1).
func (g *gen) user(fn string, caller, rcv []byte, gas uint64, args ...[]byte) spec {
	return spec{shard: g.shardOf(caller), fn: fn, caller: caller, rcv: rcv, gas: gas, args: args}
}

// sys builds a call of the ESDT system contract, executed on the recipient's shard.
func (g *gen) sys(fn string, rcv []byte, args ...[]byte) spec {
	return spec{shard: g.shardOf(rcv), fn: fn, caller: oracle.ESDTSC, rcv: rcv, args: args}
}

func (g *gen) shardOf(a []byte) int {
	s := g.w.ShardOf(a)
	if int64(s) >= int64(g.nsh) {
		return -1
	}
	return int(s)
}

// deliver executes the delivery of a pending message.
func (g *gen) deliver(m *oracle.Msg) *world.CallResult {
	g.emit("#@ strict")
	g.emitf("#@ deliver %d", m.ID)
	return g.emitCall(m.DeliveryLine(g.w))
}

// refund executes the refund of a message whose delivery failed.
func (g *gen) refund(m *oracle.Msg) *world.CallResult {
	g.emit("#@ strict")
	g.emitf("#@ refund %d", m.ID)
	return g.emitCall(m.RefundLine())
}

// network makes one step of the network: a refund if one is due (sometimes later), else a delivery.
func (g *gen) network() bool {
	rp := g.c.RefundPending()
	pd := g.c.Pending()
	if len(rp) > 0 && (len(pd) == 0 || g.r.Intn(2) == 0) {
		g.refund(rp[g.r.Intn(len(rp))])
		return true
	}
	if len(pd) > 0 {
		g.deliver(pd[g.r.Intn(len(pd))])
		return true
	}
	return false
}

// drain delivers and refunds everything in flight.
func (g *gen) drain() {
	for i := 0; i < 10000; i++ {
		if !g.network() {
			return
		}
	}
}

// settle delivers (and refunds) the given fresh messages right away.
func (g *gen) settleAll() { g.drain() }

// ---------------------------------------------------------------------------
// world construction
// ---------------------------------------------------------------------------

var builtInCostNames = []string{"ChangeOwnerAddress", "ClaimDeveloperRewards", "SaveUserName", "SaveKeyValue", "ESDTTransfer", "ESDTBurn",
	"ESDTLocalMint", "ESDTLocalBurn", "ESDTNFTCreate", "ESDTNFTAddQuantity", "ESDTNFTBurn", "ESDTNFTTransfer", "ESDTNFTChangeCreateOwner",
	"ESDTNFTMultiTransfer", "ESDTNFTAddURI", "ESDTNFTUpdateAttributes"}
var baseCostNames = []string{"StorePerByte", "ReleasePerByte", "DataCopyPerByte", "PersistPerByte", "CompilePerByte", "AoTPreparePerByte"}

var costField = map[string]string{
	oracle.FnChangeOwner: "ChangeOwnerAddress", oracle.FnClaim: "ClaimDeveloperRewards", oracle.FnSetUserName: "SaveUserName",
	oracle.FnSaveKeyValue: "SaveKeyValue", oracle.FnTransfer: "ESDTTransfer", oracle.FnBurn: "ESDTBurn", oracle.FnLocalMint: "ESDTLocalMint",
	oracle.FnLocalBurn: "ESDTLocalBurn", oracle.FnNFTCreate: "ESDTNFTCreate", oracle.FnNFTAddQty: "ESDTNFTAddQuantity", oracle.FnNFTBurn: "ESDTNFTBurn",
	oracle.FnNFTTransfer: "ESDTNFTTransfer", oracle.FnMultiTransfer: "ESDTNFTMultiTransfer", oracle.FnNFTAddURI: "ESDTNFTAddURI",
	oracle.FnNFTUpdate: "ESDTNFTUpdateAttributes",
}

var primes = func() []uint64 {
	var ps []uint64
	for n := uint64(11); len(ps) < 400; n++ {
		p := true
		for d := uint64(2); d*d <= n; d++ {
			if n%d == 0 {
				p = false
				break
			}
		}
		if p {
			ps = append(ps, n)
		}
	}
	return ps
}()

// primeSchedule draws pairwise distinct prime costs >= 11 for all 22 entries.
func (g *gen) primeSchedule() map[string]uint64 {
	m := map[string]uint64{}
	// per-byte costs stay small so that charges remain readable: six of the first 22 primes
	p22 := g.r.Perm(22)
	for j, n := range baseCostNames {
		m["BaseOperationCost."+n] = primes[p22[j]]
	}
	used := map[uint64]bool{}
	for _, v := range m {
		used[v] = true
	}
	for _, n := range builtInCostNames {
		for {
			v := primes[22+g.r.Intn(len(primes)-22)]
			if !used[v] {
				used[v] = true
				m["BuiltInCost."+n] = v
				break
			}
		}
	}
	return m
}

func gasmapString(m map[string]uint64) string {
	if len(m) == 0 {
		return "-"
	}
	var parts []string
	for _, n := range baseCostNames {
		if v, ok := m["BaseOperationCost."+n]; ok {
			parts = append(parts, "BaseOperationCost."+n+"="+strconv.FormatUint(v, 10))
		}
	}
	for _, n := range builtInCostNames {
		if v, ok := m["BuiltInCost."+n]; ok {
			parts = append(parts, "BuiltInCost."+n+"="+strconv.FormatUint(v, 10))
		}
	}
	return strings.Join(parts, ",")
}

func (g *gen) cost(fn string) uint64 {
	if f, ok := costField[fn]; ok {
		return g.gas["BuiltInCost."+f]
	}
	return 0
}

func userAddr(i int, last byte) []byte {
	a := bytes.Repeat([]byte{byte(0x11 + 0x0d*i)}, 32)
	a[0] = byte(0x41 + i)
	a[31] = last
	return a
}

func contractAddr(i int, last byte) []byte {
	a := make([]byte, 32)
	a[8], a[9] = 5, 0
	for j := 10; j < 31; j++ {
		a[j] = byte(0x31 + 7*i)
	}
	a[31] = last
	return a
}

func metaContract() []byte {
	a := make([]byte, 32)
	a[8], a[9] = 5, 0
	for j := 25; j < 30; j++ {
		a[j] = 0x77
	}
	a[30], a[31] = 0xff, 0xff // the metachain identifier in its one-byte and in its two-byte reading (like the system contracts' …ffff)
	return a
}

type worldOpts struct {
	nsh        int // 0 = by seed
	activation uint32
	epoch      int64 // -1 = no epoch op
	nUsers     int
	nContracts int
}

// setupWorld emits the profile line, the world line, the epoch op and fixes the account universe.
func (g *gen) setupWorld(o worldOpts) {
	g.emit("#@ profile " + g.profile)
	g.nsh = o.nsh
	if g.nsh == 0 {
		// 1..3 shards, varying with the seed; most seeds are multi-shard (seed 1: 3, 2: 2, 3: 3, 4: 1, 5: 2, …). A quick
		// run is one world per profile: it is never the single-shard one (nothing cross-shard could happen in it).
		g.nsh = []int{3, 2, 3, 1, 2}[int(((g.seed-1)%5+5)%5)]
		if g.nsh == 1 && !g.thorough {
			g.nsh = 2
		}
	}
	if o.nUsers == 0 {
		o.nUsers = 6 + g.r.Intn(5)
	}
	if o.nContracts == 0 {
		o.nContracts = 2 + g.r.Intn(3)
	}
	g.users, g.contracts = nil, nil
	for i := 0; i < o.nUsers; i++ {
		sh := i % g.nsh
		g.users = append(g.users, userAddr(i, byte(sh+g.nsh*(i/g.nsh%7))))
	}
	for i := 0; i < o.nContracts; i++ {
		sh := (i + 1) % g.nsh
		g.contracts = append(g.contracts, contractAddr(i, byte(sh+g.nsh*(i/g.nsh%7))))
	}
	g.accounts = append(append([][]byte{}, g.users...), g.contracts...)
	g.meta = metaContract()
	// DNS: one user-like address and one contract-like address that are not otherwise used
	g.dns = [][]byte{userAddr(20, byte(g.r.Intn(g.nsh))), contractAddr(20, byte(g.r.Intn(g.nsh)))}
	g.nameChg = g.r.Intn(2) == 0
	g.gas = g.primeSchedule()
	nc := "0"
	if g.nameChg {
		nc = "1"
	}
	g.emitf("world %d %s %d %s,%s %s", g.nsh, nc, o.activation, hx(g.dns[0]), hx(g.dns[1]), gasmapString(g.gas))
	if o.epoch >= 0 {
		g.emitf("epoch * %d", o.epoch)
	}
}

// ---------------------------------------------------------------------------
// state inspection
// ---------------------------------------------------------------------------

type holding struct {
	tok    []byte
	nonce  uint64
	val    *big.Int
	frozen bool
	info   *oracle.TokInfo
}

func (h holding) nb() []byte { return oracle.NonceBytes(h.nonce) }

func sortedKeys(a *world.Account) []string {
	ks := make([]string, 0, a.NumKeys())
	a.ForEach(func(k string, _ []byte) { ks = append(ks, k) })
	sort.Strings(ks)
	return ks
}

func (g *gen) acct(a []byte) *world.Account {
	s := g.shardOf(a)
	if s < 0 {
		return nil
	}
	return g.w.Account(s, a)
}

// holdings lists the decodable token entries of an account (sorted by key).
func (g *gen) holdings(a []byte) []holding {
	acc := g.acct(a)
	if acc == nil {
		return nil
	}
	var hs []holding
	for _, k := range sortedKeys(acc) {
		if !strings.HasPrefix(k, oracle.EsdtPrefix) {
			continue
		}
		ti := g.c.Decode(acc.Get(k))
		if ti.Err || ti.Tok.Value == nil {
			continue
		}
		rest := k[len(oracle.EsdtPrefix):]
		h := holding{val: ti.Tok.Value, frozen: ti.Frozen, info: ti}
		if m := ti.Tok.TokenMetaData; m != nil {
			nb := string(oracle.NonceBytes(m.Nonce))
			if !strings.HasSuffix(rest, nb) {
				continue
			}
			h.tok, h.nonce = []byte(rest[:len(rest)-len(nb)]), m.Nonce
		} else {
			h.tok = []byte(rest)
		}
		hs = append(hs, h)
	}
	return hs
}

func (g *gen) holdingOf(a, tok []byte, nonce uint64) *big.Int {
	acc := g.acct(a)
	if acc == nil {
		return new(big.Int)
	}
	return g.c.Decode(acc.Get(oracle.TokenKey(tok, nonce))).Val()
}

func (g *gen) rolesOf(a, tok []byte) []string {
	acc := g.acct(a)
	if acc == nil {
		return nil
	}
	r, _ := oracle.DecodeRoles(acc.Get(oracle.RolePrefix + string(tok)))
	return r
}

func has(roles []string, r string) bool {
	for _, x := range roles {
		if x == r {
			return true
		}
	}
	return false
}

// withRole lists the acting accounts that hold role r for tok.
func (g *gen) withRole(tok []byte, r string) [][]byte {
	var out [][]byte
	for _, a := range g.accounts {
		if has(g.rolesOf(a, tok), r) {
			out = append(out, a)
		}
	}
	return out
}

// creatorOf returns the (single) holder of the create role among the acting accounts, or nil.
func (g *gen) creatorOf(tok []byte) []byte {
	if l := g.withRole(tok, oracle.RoleNFTCreate); len(l) > 0 {
		return l[0]
	}
	return nil
}

type held struct {
	a []byte
	h holding
}

// holders lists (account, holding) pairs over the acting accounts, filtered.
func (g *gen) holders(filter func(a []byte, h holding) bool) []held {
	var out []held
	for _, a := range g.accounts {
		if g.sink[string(a)] {
			continue
		}
		for _, h := range g.holdings(a) {
			if filter == nil || filter(a, h) {
				out = append(out, held{a, h})
			}
		}
	}
	return out
}

func isFung(_ []byte, h holding) bool {
	return h.nonce == 0 && h.info.Tok.TokenMetaData == nil && h.val.Sign() > 0
}
func isNFT(_ []byte, h holding) bool  { return h.nonce > 0 && h.val.Sign() > 0 }
func anyPos(_ []byte, h holding) bool { return h.val.Sign() > 0 }

// pickHeld picks a holding, preferring the focus (gates profile) when one is set.
func (g *gen) pickHeld(filter func(a []byte, h holding) bool) (held, bool) {
	l := g.holders(filter)
	if len(l) == 0 {
		return held{}, false
	}
	if g.focusTTL > 0 && g.r.Intn(3) > 0 {
		var f []held
		for _, x := range l {
			if (g.focusAddr == nil || bytes.Equal(x.a, g.focusAddr)) && (g.focusTok == nil || bytes.Equal(x.h.tok, g.focusTok)) {
				f = append(f, x)
			}
		}
		if len(f) > 0 {
			l = f
		}
	}
	return l[g.r.Intn(len(l))], true
}

func (g *gen) pick(l [][]byte) []byte { return l[g.r.Intn(len(l))] }

func (g *gen) allTokens() [][]byte {
	return append(append(append([][]byte{}, g.fung...), g.sft...), g.nft...)
}

// otherThan picks an acting account different from a (nil when there is none).
func (g *gen) otherThan(a []byte, filter func(b []byte) bool) []byte {
	var l [][]byte
	for _, b := range g.accounts {
		if !bytes.Equal(a, b) && (filter == nil || filter(b)) {
			l = append(l, b)
		}
	}
	if len(l) == 0 {
		return nil
	}
	return g.pick(l)
}

func (g *gen) sameShard(a []byte) func(b []byte) bool {
	return func(b []byte) bool { return g.shardOf(a) == g.shardOf(b) }
}
func (g *gen) otherShard(a []byte) func(b []byte) bool {
	return func(b []byte) bool { return g.shardOf(a) != g.shardOf(b) }
}

// ---------------------------------------------------------------------------
// token issuing (system-contract discipline E5)
// ---------------------------------------------------------------------------

const hexd = "0123456789abcdef"
const upper = "ABCDEFGHIJKLMNOPQRSTUVWXYZ0123456789"

// newTokenID draws a fresh well-formed id TICKER-6hex.
func (g *gen) newTokenID(ticker string) []byte {
	for {
		t := ticker
		if t == "" {
			n := 3 + g.r.Intn(4)
			for i := 0; i < n; i++ {
				t += string(upper[g.r.Intn(26)])
			}
		}
		id := t + "-"
		for i := 0; i < 6; i++ {
			id += string(hexd[g.r.Intn(16)])
		}
		dup := false
		for _, x := range g.allTokens() {
			if string(x) == id {
				dup = true
			}
		}
		if !dup {
			return []byte(id)
		}
	}
}

func bs(ss ...string) [][]byte {
	out := make([][]byte, len(ss))
	for i, s := range ss {
		out[i] = []byte(s)
	}
	return out
}

// setRoles issues ESDTSetRole respecting discipline: never a role the account already has, never a
// second creator. Returns false when nothing remained to set.
func (g *gen) setRoles(a, tok []byte, roles ...string) bool {
	have := g.rolesOf(a, tok)
	var set [][]byte
	for _, r := range roles {
		if has(have, r) {
			continue
		}
		if r == oracle.RoleNFTCreate && g.createRoleTaken(tok) {
			continue
		}
		have = append(have, r)
		set = append(set, []byte(r))
	}
	if len(set) == 0 {
		return false
	}
	return isOK(g.do(g.sys(oracle.FnSetRole, a, append([][]byte{tok}, set...)...)))
}

// createRoleTaken: some account holds the create role for tok, or a hand-over of it is in flight.
func (g *gen) createRoleTaken(tok []byte) bool {
	for s := 0; s < g.nsh; s++ {
		for _, acc := range g.w.Accounts(s) {
			r, _ := oracle.DecodeRoles(acc.Get(oracle.RolePrefix + string(tok)))
			if has(r, oracle.RoleNFTCreate) {
				return true
			}
		}
	}
	for _, m := range g.c.Pending() {
		if m.Fn == oracle.FnHandOver && len(m.Args) > 0 && bytes.Equal(m.Args[0], tok) {
			return true
		}
	}
	return false
}

const bigGas = 50000000

func be(n uint64) []byte { return new(big.Int).SetUint64(n).Bytes() }

// issueFungible creates a fungible token: mint/burn roles to 1..3 accounts, each mints.
func (g *gen) issueFungible(amount *big.Int) []byte {
	tok := g.newTokenID("")
	g.fung = append(g.fung, tok)
	n := 1 + g.r.Intn(3)
	for i := 0; i < n; i++ {
		a := g.pick(g.accounts)
		g.setRoles(a, tok, oracle.RoleLocalMint, oracle.RoleLocalBurn)
		g.do(g.user(oracle.FnLocalMint, a, a, bigGas, tok, amount.Bytes()))
	}
	return tok
}

var nftRoles = []string{oracle.RoleNFTCreate, oracle.RoleNFTAddQty, oracle.RoleNFTBurn, oracle.RoleNFTAddURI, oracle.RoleNFTUpdateAtt}

// createArgs builds ESDTNFTCreate arguments.
func (g *gen) createArgs(tok []byte, qty uint64, nURIs int) [][]byte {
	hash := []byte("hash" + strconv.Itoa(g.r.Intn(1000)))
	if g.r.Intn(10) == 0 {
		hash = []byte{} // an NFT may be created with an empty hash: it is a hash like any other for the destination check
	}
	args := [][]byte{tok, be(qty), []byte("name" + strconv.Itoa(g.r.Intn(100))), be(uint64(g.r.Intn(10001))),
		hash, []byte("attr" + strconv.Itoa(g.r.Intn(10)))}
	for i := 0; i < nURIs; i++ {
		args = append(args, []byte("uri"+strconv.Itoa(i)))
	}
	return args
}

// issueNFT creates a semi-fungible (qty > 1) or non-fungible (qty 1) token with `count` nonces.
func (g *gen) issueNFT(semi bool, count int) []byte {
	tok := g.newTokenID("")
	creator := g.pick(g.accounts)
	if semi {
		g.sft = append(g.sft, tok)
	} else {
		g.nft = append(g.nft, tok)
	}
	g.setRoles(creator, tok, nftRoles...)
	for i := 0; i < count; i++ {
		q := uint64(1)
		if semi {
			q = uint64(2 + g.r.Intn(60))
		}
		g.do(g.user(oracle.FnNFTCreate, creator, creator, bigGas, g.createArgs(tok, q, 1+g.r.Intn(2))...))
	}
	return tok
}

// counterSeeds: values just below a nonce whose minimal encoding grows by a byte / ends in a zero byte.
// The high ones make the next nonces cross 2^63 (a signed conversion would go negative) and come close to 2^64 (never
// reaching the wrap: that would take a thousand more creates of the same token).
var counterSeeds = []uint64{254, 255, 65534, 65535, 1<<32 - 2, 1<<63 - 2, 1<<63 - 1, 1<<63 + 5, 1<<64 - 1000}

// jumpCounter pre-seeds the creator's counter (raw) to a value above every issued nonce, so that the
// next creates cross 256 / 65536 / 2^32 while the low nonces 1, 2, … are still held.
func (g *gen) jumpCounter(tok []byte) {
	a := g.creatorOf(tok)
	if a == nil || g.handOverInFlight(tok) {
		return
	}
	acc := g.acct(a)
	cur := oracle.U64(acc.Get(oracle.NoncePrefix + string(tok)))
	for _, s := range counterSeeds {
		if s > cur+1 && (g.r.Intn(2) == 0 || s == counterSeeds[len(counterSeeds)-1]) {
			g.emitf("raw %d %s %s %s", g.shardOf(a), hx(a), hx([]byte(oracle.NoncePrefix+string(tok))), hx(be(s)))
			return
		}
	}
}

// distribute spreads holdings with plain transfers (delivered at once).
func (g *gen) distribute(rounds int) {
	for i := 0; i < rounds; i++ {
		x, ok := g.pickHeld(anyPos)
		if !ok {
			return
		}
		b := g.otherThan(x.a, nil)
		if b == nil {
			return
		}
		amt := new(big.Int).Rsh(x.h.val, 1)
		if amt.Sign() == 0 {
			amt = big.NewInt(1)
		}
		if x.h.nonce == 0 {
			g.do(g.user(oracle.FnTransfer, x.a, b, bigGas, x.h.tok, amt.Bytes()))
		} else {
			g.do(g.user(oracle.FnNFTTransfer, x.a, x.a, bigGas, x.h.tok, x.h.nb(), amt.Bytes(), b))
		}
		g.drain()
	}
}

// standardState builds the usual rich state: payable flags, owners, tokens of the three kinds, spread out.
func (g *gen) standardState() {
	for _, c := range g.contracts {
		owner := g.pick(g.users)
		for try := 0; try < 4 && g.shardOf(owner) != g.shardOf(c); try++ {
			owner = g.pick(g.users) // mostly an owner on the contract's shard
		}
		g.emitf("acct %d %s owner %s", g.shardOf(c), hx(c), hx(owner))
		g.emitf("acct %d %s reward %d", g.shardOf(c), hx(c), 100+g.r.Intn(900))
		if g.r.Intn(3) == 0 {
			g.emitf("payable %s no", hx(c))
		}
	}
	if g.r.Intn(2) == 0 {
		g.emitf("payable %s no", hx(g.pick(g.users)))
	}
	g.issueFungible(big.NewInt(int64(1000 + g.r.Intn(100000))))
	g.issueFungible(new(big.Int).Lsh(big.NewInt(1), uint(60+g.r.Intn(40))))
	g.issueNFT(true, 3)
	g.issueNFT(true, 2)
	g.issueNFT(false, 3)
	g.distribute(4 * len(g.accounts))
}
