package main

import (
	"bytes"
	"github.com/ElrondNetwork/elrond-vm-common/data/esdt"
	"math/big"
	"sort"
	"strconv"
	"strings"

	"verifharness/oracle"
)

// weighted runs one of the op generators, chosen by weight; a generator that has nothing to do
// returns false and another one is drawn.
type wop struct {
	w int
	f func() bool
}

func (g *gen) step(table []wop) {
	total := 0
	for _, o := range table {
		total += o.w
	}
	// keep at most ~6 messages in flight (deliver late, but do deliver)
	if n := len(g.c.Pending()) + len(g.c.RefundPending()); n > 6 || (n > 3 && g.r.Intn(3) == 0) {
		g.network()
		return
	}
	if g.profile != "gates" && g.r.Intn(4) == 0 && g.housekeeping() {
		return
	}
	for try := 0; try < 20; try++ {
		n := g.r.Intn(total)
		for _, o := range table {
			if n < o.w {
				if o.f() {
					if g.focusTTL > 0 {
						g.focusTTL--
					}
					return
				}
				break
			}
			n -= o.w
		}
	}
	// nothing applicable: keep the world alive
	if !g.opMint() {
		g.emit("# idle")
	}
}

// housekeeping keeps the world usable outside the gates profile: it lifts pauses and freezes that
// scenario calls left behind (at most one (token, shard) pause and two frozen holders stay).
func (g *gen) housekeeping() bool {
	type ps struct {
		shard int
		tok   []byte
	}
	var paused []ps
	for s := 0; s < g.nsh; s++ {
		for _, t := range g.pausedTokens(s) {
			paused = append(paused, ps{s, t})
		}
	}
	if len(paused) > 1 {
		p := paused[g.r.Intn(len(paused))]
		g.do(spec{shard: p.shard, fn: oracle.FnUnPause, caller: oracle.ESDTSC, rcv: oracle.SystemAccount, args: [][]byte{p.tok}})
		return true
	}
	if fz := g.holders(func(_ []byte, h holding) bool { return h.frozen }); len(fz) > 2 {
		x := fz[g.r.Intn(len(fz))]
		g.do(g.sys(oracle.FnUnFreeze, x.a, x.h.tok))
		return true
	}
	return false
}

func (g *gen) loop(table []wop) {
	for !g.full() {
		g.step(table)
	}
	g.drain()
}

// ---------------------------------------------------------------------------
// transfers (C01, C09, C10)
// ---------------------------------------------------------------------------

func (g *gen) transfersTable() []wop {
	return []wop{
		{24, g.opTransfer}, {24, g.opNFTTransfer}, {30, g.opMulti},
		{14, g.lateNetwork}, {3, g.opPayableFlip}, {2, g.opAlias},
		{2, g.opMint}, {2, g.opCreate}, {1, g.opAddQty}, {3, g.opSysTransfer}, {3, g.opPayableMatrix}, {2, g.opThinSecondLeg}, {2, g.opHandOverFresh}, {3, g.opUnfrozenDrain},
		{3, g.opRepeatOverdraw}, {2, g.opFreezeNFTInFlight},
	}
}

func (g *gen) runTransfers() {
	g.setupWorld(worldOpts{activation: uint32(g.r.Intn(3)), epoch: 2 + int64(g.r.Intn(3))})
	g.standardState()
	g.metaNodeScenario()
	g.opRepeatOverdraw()
	g.opFreezeNFTInFlight()
	g.loop(g.transfersTable())
}

// runOneChain: a ONE-shard network (shard 0 and the metachain): seen from the metachain node every ordinary account is
// remote although "number of shards" is 1; then ordinary single-shard traffic.
func (g *gen) runOneChain() {
	g.setupWorld(worldOpts{nsh: 1, activation: 0, epoch: 1})
	g.standardState()
	g.metaNodeScenario()
	g.loop(g.transfersTable())
}

// metaNodeScenario: the node of shard 0 becomes a METACHAIN node; a metachain contract that holds a fungible token and an
// SFT tries the three transfer functions towards another metachain address (refused on every node, this one included)
// and towards an ordinary account; then the node is an ordinary one again.
func (g *gen) metaNodeScenario() {
	ma, mb := metaContract(), metaContract()
	mb[27] = 0x21
	if g.w.ShardOf(ma) != 0xFFFFFFFF || g.w.ShardOf(mb) != 0xFFFFFFFF {
		return
	}
	tokF, tokN, tokH := g.newTokenID(""), g.newTokenID(""), g.newTokenID("")
	fb, err1 := (&esdt.ESDigitalToken{Value: big.NewInt(100)}).Marshal()
	nb, err2 := (&esdt.ESDigitalToken{Type: 1, Value: big.NewInt(5), TokenMetaData: &esdt.MetaData{Nonce: 1, Name: []byte("m"), Creator: ma, Hash: []byte("h"), URIs: [][]byte{[]byte("u")}}}).Marshal()
	if err1 != nil || err2 != nil {
		return
	}
	on0 := func(fn string, caller, rcv []byte, args ...[]byte) spec {
		gas := uint64(bigGas)
		if bytes.Equal(caller, oracle.ESDTSC) {
			gas = 0
		}
		return spec{shard: 0, fn: fn, caller: caller, rcv: rcv, gas: gas, args: args}
	}
	three := func(dst []byte) {
		g.do(on0(oracle.FnTransfer, ma, dst, tokF, []byte{1}))
		g.do(on0(oracle.FnNFTTransfer, ma, ma, tokN, []byte{1}, []byte{1}, dst))
		g.do(on0(oracle.FnMultiTransfer, ma, ma, dst, []byte{2}, tokN, []byte{1}, []byte{1}, tokF, []byte{}, []byte{2}))
	}
	// node 0 plays the metachain for the length of this scenario only: nothing else may be under way while it does (a
	// message towards an ordinary shard-0 account would find no node)
	g.drain()
	g.emit("selfmeta 0 on")
	g.emitf("raw 0 %s %s %s", hx(ma), hx([]byte(oracle.TokenKey(tokF, 0))), hx(fb))
	g.emitf("raw 0 %s %s %s", hx(ma), hx([]byte(oracle.TokenKey(tokN, 1))), hx(nb))
	// (a) a contract on ANOTHER shard that does not accept payments: the deliveries are refused there and the refunds
	// come back to the metachain contract while node 0 still is the metachain (a caller of the metachain's address class
	// is an ordinary caller: only the ESDT system contract itself is exempt from the payability question)
	for _, c := range g.contracts {
		if g.shardOf(c) > 0 {
			g.emitf("payable %s no", hx(c))
			// (NFT and multi transfers only: the plain ESDTTransfer refuses a metachain RECEIVER on every node, its own
			// refund included - the metachain holds no fungible balances in the protocol; this scenario's are seeded)
			g.do(on0(oracle.FnNFTTransfer, ma, ma, tokN, []byte{1}, []byte{1}, c))
			g.do(on0(oracle.FnMultiTransfer, ma, ma, c, []byte{2}, tokN, []byte{1}, []byte{1}, tokF, []byte{}, []byte{2}))
			g.drain()
			g.emitf("payable %s yes", hx(c))
			break
		}
	}
	// (b) towards another metachain address (refused) and towards an ordinary account that accepts (whatever its shard:
	// seen from the metachain every ordinary account is remote, on a one-shard network too)
	user := g.pick(g.users)
	g.emitf("payable %s yes", hx(user))
	three(mb)
	three(user)
	// (c) the gates hold for a holder of the metachain's address class as for anybody else (only the ESDT system
	// contract's own account is exempt): frozen, then paused, it moves nothing
	g.do(on0(oracle.FnFreeze, oracle.ESDTSC, ma, tokF))
	g.do(on0(oracle.FnTransfer, ma, user, tokF, []byte{1}))
	g.do(on0(oracle.FnBurn, ma, oracle.ESDTSC, tokF, []byte{1}))
	g.do(on0(oracle.FnMultiTransfer, ma, ma, user, []byte{1}, tokF, []byte{}, []byte{1}))
	g.do(on0(oracle.FnUnFreeze, oracle.ESDTSC, ma, tokF))
	g.do(on0(oracle.FnPause, oracle.ESDTSC, oracle.SystemAccount, tokN))
	g.do(on0(oracle.FnNFTTransfer, ma, ma, tokN, []byte{1}, []byte{1}, user))
	g.do(on0(oracle.FnMultiTransfer, ma, ma, user, []byte{1}, tokN, []byte{1}, []byte{1}))
	g.do(on0(oracle.FnUnPause, oracle.ESDTSC, oracle.SystemAccount, tokN))
	g.do(on0(oracle.FnTransfer, ma, user, tokF, []byte{1}))
	// (d) a create role handed over FROM a metachain holder to an account of the shard this node ordinarily serves: for
	// the metachain node that account is remote - the counter travels in the message and nothing is written here
	for _, u := range g.users {
		if g.shardOf(u) == 0 {
			g.do(on0(oracle.FnSetRole, oracle.ESDTSC, ma, tokH, []byte(oracle.RoleNFTCreate)))
			g.do(on0(oracle.FnNFTCreate, ma, ma, g.createArgs(tokH, 1, 1)...))
			g.do(on0(oracle.FnNFTCreate, ma, ma, g.createArgs(tokH, 1, 1)...))
			g.do(on0(oracle.FnHandOver, oracle.ESDTSC, ma, tokH, u))
			break
		}
	}
	g.emit("selfmeta 0 off")
	// what is still under way (towards ordinary accounts that accept) is delivered with node 0 back in its own role
	g.drain()
}

// ---------------------------------------------------------------------------
// supply (C02)
// ---------------------------------------------------------------------------

// widenRoles gives the non-create roles to several accounts so that holders can burn / add.
func (g *gen) widenRoles() {
	for _, tok := range g.fung {
		for i := 0; i < 3; i++ {
			g.setRoles(g.pick(g.accounts), tok, oracle.RoleLocalMint, oracle.RoleLocalBurn)
		}
	}
	for _, tok := range append(append([][]byte{}, g.sft...), g.nft...) {
		for i := 0; i < 3; i++ {
			g.setRoles(g.pick(g.accounts), tok, oracle.RoleNFTAddQty, oracle.RoleNFTBurn, oracle.RoleNFTAddURI, oracle.RoleNFTUpdateAtt)
		}
	}
}

func (g *gen) opFreezeThenWipe() bool {
	x, ok := g.pickHeld(isFung)
	if !ok {
		return false
	}
	if g.r.Intn(4) > 0 {
		g.do(g.sys(oracle.FnFreeze, x.a, x.h.tok))
	}
	g.do(g.sys(oracle.FnWipe, x.a, x.h.tok))
	if g.r.Intn(2) == 0 {
		g.do(g.sys(oracle.FnUnFreeze, x.a, x.h.tok))
	}
	return true
}

func (g *gen) runSupply() {
	g.setupWorld(worldOpts{activation: 0, epoch: int64(g.r.Intn(3))})
	g.standardState()
	g.widenRoles()
	opJump := func() bool {
		toks := append(append([][]byte{}, g.sft...), g.nft...)
		tok := g.pick(toks)
		a := g.creatorOf(tok)
		if a == nil {
			return false
		}
		g.jumpCounter(tok)
		for i := 0; i < 3; i++ {
			g.do(g.user(oracle.FnNFTCreate, a, a, bigGas, g.createArgs(tok, uint64(2+g.r.Intn(9)), 1)...))
		}
		return true
	}
	opJump()
	g.opRepeatOverdraw()
	g.opAliasRoleHolder()
	g.loop([]wop{
		{2, g.opAliasRoleHolder}, {3, g.opRepeatOverdraw}, {1, opJump}, {16, g.opMint}, {14, g.opLocalBurn}, {12, g.opESDTBurn}, {12, g.opCreate}, {14, g.opAddQty}, {14, g.opNFTBurn},
		{5, g.opFreezeThenWipe}, {4, g.opTransfer}, {4, g.opNFTTransfer}, {3, g.opMulti}, {4, g.lateNetwork}, {2, g.opAlias}, {3, g.opUnfrozenDrain},
	})
}

// ---------------------------------------------------------------------------
// gates (C04)
// ---------------------------------------------------------------------------

// opRAE issues a balance-changing call with the return-after-error flag set (flag combinations).
func (g *gen) opRAE() bool {
	fn := []string{oracle.FnTransfer, oracle.FnNFTTransfer, oracle.FnMultiTransfer, oracle.FnLocalBurn, oracle.FnLocalMint, oracle.FnNFTBurn}[g.r.Intn(6)]
	sp, ok := g.scenario(fn)
	if !ok {
		return false
	}
	sp.rae = true
	sp.ct = []int{0, 2}[g.r.Intn(2)]
	g.do(sp)
	return true
}

// opFullQuantity burns or transfers a whole holding (the entry disappears).
func (g *gen) opFullQuantity() bool {
	x, ok := g.pickHeld(anyPos)
	if !ok {
		return false
	}
	b := g.otherThan(x.a, nil)
	full := x.h.val.Bytes()
	switch {
	case x.h.nonce == 0 && g.r.Intn(3) == 0:
		g.do(g.user(oracle.FnBurn, x.a, oracle.ESDTSC, bigGas, x.h.tok, full))
	case x.h.nonce == 0 && g.r.Intn(2) == 0:
		g.do(g.user(oracle.FnTransfer, x.a, b, bigGas, x.h.tok, full))
	case x.h.nonce == 0:
		g.do(g.user(oracle.FnMultiTransfer, x.a, x.a, bigGas, b, be(1), x.h.tok, []byte{}, full))
	case g.r.Intn(3) == 0:
		g.do(g.user(oracle.FnNFTBurn, x.a, x.a, bigGas, x.h.tok, x.h.nb(), full))
	default:
		g.do(g.user(oracle.FnNFTTransfer, x.a, x.a, bigGas, x.h.tok, x.h.nb(), full, b))
	}
	return true
}

func (g *gen) runGates() {
	g.setupWorld(worldOpts{activation: 0, epoch: 1})
	g.standardState()
	g.widenRoles()
	g.metaNodeScenario()
	g.opPauseSpelled()
	g.loop([]wop{
		{2, g.opPauseSpelled}, {14, g.opFreezeToggle}, {9, g.opPauseToggle},
		{10, g.opTransfer}, {10, g.opNFTTransfer}, {12, g.opMulti}, {5, g.opMint}, {5, g.opLocalBurn}, {4, g.opESDTBurn},
		{4, g.opCreate}, {4, g.opAddQty}, {4, g.opNFTBurn}, {2, g.opAddURI}, {2, g.opUpdateAttr},
		{6, g.opFullQuantity}, {4, g.opRAE}, {12, g.lateNetwork}, {1, g.opPayableFlip}, {3, g.opSysTransfer}, {3, g.opUnfrozenDrain},
	})
}

// ---------------------------------------------------------------------------
// authority (C03)
// ---------------------------------------------------------------------------

// subsetRoles: a random subset of the seven roles (sometimes all but one).
func (g *gen) subsetRoles(without string) []string {
	var out []string
	allBut := g.r.Intn(4) == 0
	for _, r := range oracle.AllRoles {
		if r == without {
			continue
		}
		if allBut || g.r.Intn(2) == 0 {
			out = append(out, r)
		}
	}
	return out
}

// opRoleSubset sets a random subset of roles (create role only under discipline, except on the
// tokens marked undisciplined on purpose).
func (g *gen) opRoleSubset(wild map[string]bool) func() bool {
	return func() bool {
		t := g.allTokens()
		if len(t) == 0 {
			return false
		}
		tok, a := g.pick(t), g.pick(g.accounts)
		roles := g.subsetRoles([]string{"", oracle.RoleNFTCreate, oracle.RoleLocalMint, oracle.RoleNFTBurn}[g.r.Intn(4)])
		if len(roles) == 0 {
			return false
		}
		if wild[string(tok)] {
			// deliberately undisciplined: duplicates and several creators allowed
			args := [][]byte{tok}
			for _, r := range roles {
				args = append(args, []byte(r))
			}
			if g.r.Intn(4) == 0 {
				args = append(args, []byte(roles[0])) // duplicate
			}
			g.do(g.sys(oracle.FnSetRole, a, args...))
			return true
		}
		return g.setRoles(a, tok, roles...)
	}
}

func (g *gen) opUnsetRoles(wild map[string]bool) func() bool {
	return func() bool {
		t := g.allTokens()
		if len(t) == 0 {
			return false
		}
		tok, a := g.pick(t), g.pick(g.accounts)
		var args [][]byte
		for _, r := range g.subsetRoles(oracle.RoleNFTCreate) {
			args = append(args, []byte(r))
		}
		if wild[string(tok)] && g.r.Intn(3) == 0 {
			args = append(args, []byte(oracle.RoleNFTCreate))
		}
		if len(args) == 0 {
			return false
		}
		g.do(g.sys(oracle.FnUnSetRole, a, append([][]byte{tok}, args...)...))
		return true
	}
}

// opGatedByAnyone calls a role-gated function from an arbitrary account (with or without the role,
// with the right role for a different token, …) on a token it preferably holds.
func (g *gen) opGatedByAnyone() bool {
	fn := []string{oracle.FnLocalMint, oracle.FnLocalBurn, oracle.FnNFTCreate, oracle.FnNFTAddQty, oracle.FnNFTBurn, oracle.FnNFTAddURI, oracle.FnNFTUpdate}[g.r.Intn(7)]
	a := g.pick(g.accounts)
	switch fn {
	case oracle.FnLocalMint, oracle.FnLocalBurn:
		tok := g.pick(g.fung)
		if x, ok := g.pickHeld(isFung); ok && g.r.Intn(3) > 0 {
			a, tok = x.a, x.h.tok
		}
		amt := []byte{byte(1 + g.r.Intn(9))}
		g.do(g.user(fn, a, a, bigGas, tok, amt))
	case oracle.FnNFTCreate:
		tok := g.pick(append(append([][]byte{}, g.sft...), g.nft...))
		q := uint64(1)
		if g.r.Intn(2) == 0 {
			q = uint64(2 + g.r.Intn(9))
		}
		var bigQ []byte
		if g.r.Intn(5) == 0 { // quantities whose low 64 bits are 0 or 1
			bigQ = [][]byte{two64.Bytes(), two64p1.Bytes(), new(big.Int).Lsh(big.NewInt(1), 200).Bytes(), new(big.Int).Add(new(big.Int).Lsh(big.NewInt(3), 64), big.NewInt(1)).Bytes()}[g.r.Intn(4)]
		}
		if g.r.Intn(3) > 0 { // an account holding some role for the token
			var l [][]byte
			for _, b := range g.accounts {
				if len(g.rolesOf(b, tok)) > 0 {
					l = append(l, b)
				}
			}
			if len(l) > 0 {
				a = g.pick(l)
			}
		}
		args := g.createArgs(tok, q, 1+g.r.Intn(2))
		if bigQ != nil {
			args[1] = bigQ
		}
		g.do(g.user(fn, a, a, bigGas, args...))
	default:
		x, ok := g.pickHeld(isNFT)
		if !ok {
			return false
		}
		third := []byte{1}
		if fn == oracle.FnNFTAddURI || fn == oracle.FnNFTUpdate {
			third = []byte("zz")
		}
		g.do(g.user(fn, x.a, x.a, bigGas, x.h.tok, x.h.nb(), third))
	}
	return true
}

// opWideCreate: a fresh token whose creator holds the create role and NOT the add-quantity role; creates with quantity 2
// and with quantities wider than 64 bits whose low 64 bits are 0 or 1 (all need the add-quantity role), then quantity 1.
func (g *gen) opWideCreate() bool {
	tok := g.newTokenID("")
	a := g.pick(g.accounts)
	g.sft = append(g.sft, tok)
	if !g.setRoles(a, tok, oracle.RoleNFTCreate) {
		return false
	}
	wide := [][]byte{be(2), two64.Bytes(), two64p1.Bytes(), new(big.Int).Lsh(big.NewInt(1), 128).Bytes(),
		new(big.Int).Add(new(big.Int).Lsh(big.NewInt(3), 64), big.NewInt(1)).Bytes(), be(1<<64 - 1)}
	for _, k := range g.r.Perm(len(wide))[:3] {
		args := g.createArgs(tok, 1, 1)
		args[1] = wide[k]
		g.do(g.user(oracle.FnNFTCreate, a, a, bigGas, args...))
	}
	g.do(g.user(oracle.FnNFTCreate, a, a, bigGas, g.createArgs(tok, 1, 1)...))
	return true
}

// opPrivilegedByUser: a system-only function called by a non-system caller (must be rejected).
func (g *gen) opPrivilegedByUser() bool {
	fn := []string{oracle.FnSetRole, oracle.FnUnSetRole, oracle.FnFreeze, oracle.FnUnFreeze, oracle.FnWipe, oracle.FnPause, oracle.FnUnPause, oracle.FnHandOver}[g.r.Intn(8)]
	caller := g.pick(g.accounts)
	rcv := g.pick(g.accounts)
	if g.r.Intn(2) == 0 {
		rcv = caller
	}
	tok := g.pick(g.allTokens())
	var args [][]byte
	switch fn {
	case oracle.FnSetRole, oracle.FnUnSetRole:
		args = [][]byte{tok, []byte(oracle.AllRoles[g.r.Intn(7)])}
	case oracle.FnPause, oracle.FnUnPause:
		args = [][]byte{tok}
		rcv = oracle.SystemAccount
	case oracle.FnHandOver:
		args = [][]byte{tok, g.pick(g.accounts)}
		if g.r.Intn(2) == 0 {
			args[1] = be(uint64(g.r.Intn(5)))
		}
	default:
		args = [][]byte{tok}
	}
	g.do(g.user(fn, caller, rcv, bigGas, args...))
	return true
}

// opHandOver hands the create role over (same or cross shard); creates by old and new holder follow.
func (g *gen) opHandOver() bool {
	sp, ok := g.scenario(oracle.FnHandOver)
	if !ok {
		return false
	}
	old, tok, next := sp.rcv, sp.args[0], sp.args[1]
	g.do(sp)
	late := g.r.Intn(3) == 0
	if !late {
		g.drainHandOvers()
	}
	g.do(g.user(oracle.FnNFTCreate, old, old, bigGas, g.createArgs(tok, 1, 1)...)) // old holder: must fail
	if g.r.Intn(2) == 0 {
		g.do(g.user(oracle.FnNFTCreate, next, next, bigGas, g.createArgs(tok, 1, 1)...))
	}
	return true
}

func (g *gen) drainHandOvers() {
	for _, m := range g.c.Pending() {
		if m.Fn == oracle.FnHandOver {
			g.deliver(m)
		}
	}
}

// opAccountFns: ChangeOwnerAddress / ClaimDeveloperRewards / SetUserName by the right and the wrong callers.
func (g *gen) opAccountFns() bool {
	c := g.pick(g.contracts)
	acc := g.acct(c)
	var owner []byte
	if acc != nil {
		owner = acc.Owner()
	}
	caller := owner
	if g.r.Intn(3) == 0 || len(owner) != 32 {
		caller = g.pick(g.users)
	}
	// destHalf: the destination half of a cross-shard call reached directly (executed on the recipient's shard although
	// the caller lives elsewhere) - authority must be checked on every shard, not only where the sender lives
	destHalf := func(sp spec) spec {
		if g.nsh > 1 && g.r.Intn(4) == 0 && g.shardOf(sp.rcv) >= 0 {
			sp.shard = g.shardOf(sp.rcv)
		}
		return sp
	}
	switch g.r.Intn(5) {
	case 0, 1:
		no := g.pick(g.users)
		if g.r.Intn(6) == 0 {
			no = no[:31]
		}
		g.do(destHalf(g.decorate(g.user(oracle.FnChangeOwner, caller, c, g.gasFor(g.cost(oracle.FnChangeOwner)), no))))
	case 2:
		sp := g.user(oracle.FnClaim, caller, c, g.gasFor(g.cost(oracle.FnClaim)))
		sp.ct = g.callType()
		g.do(destHalf(sp))
		if g.r.Intn(3) == 0 {
			g.emitf("acct %d %s reward %d", g.shardOf(c), hx(c), 1+g.r.Intn(1000))
		}
	default:
		d := g.pick(g.dns)
		if g.r.Intn(3) == 0 {
			d = g.pick(g.accounts) // not a DNS address
		}
		u := g.pick(g.users)
		g.do(destHalf(g.user(oracle.FnSetUserName, d, u, g.gasFor(g.cost(oracle.FnSetUserName)), []byte("name"+strconv.Itoa(g.r.Intn(50))))))
	}
	return true
}

// opNearMissOwner: a contract is handed (by its rightful owner) to an address O, then an address O' that is NOT O but
// "almost" O tries to take it over and to claim its rewards, then O hands it back. The near misses are the ones a
// comparison other than byte equality confuses: letters differing in case only, bytes that are invalid UTF-8 on both
// sides, an address equal up to its last-but-one byte, a proper prefix. No random choice beyond the pick.
func (g *gen) opNearMissOwner() bool {
	c := g.pick(g.contracts)
	acc := g.acct(c)
	if acc == nil || len(acc.Owner()) != 32 {
		return false
	}
	owner := append([]byte{}, acc.Owner()...)
	rep := func(b byte) []byte {
		a := bytes.Repeat([]byte{b}, 32)
		a[31] = owner[31]
		return a
	}
	tail := rep('q')
	tail[30] = 'r'
	mixed := append([]byte("ownrOWNR"), bytes.Repeat([]byte{0xc3}, 24)...)
	mixed[31] = owner[31]
	mixed2 := append([]byte("OWNRownr"), bytes.Repeat([]byte{0xe9}, 24)...)
	mixed2[31] = owner[31]
	for _, p := range [][2][]byte{{rep('o'), rep('O')}, {rep(0xa1), rep(0xb2)}, {rep('q'), tail}, {mixed, mixed2}} {
		o, near := p[0], p[1]
		g.do(g.user(oracle.FnChangeOwner, owner, c, bigGas, o))
		g.do(g.user(oracle.FnChangeOwner, near, c, bigGas, near))
		sp := g.user(oracle.FnChangeOwner, near, c, bigGas, near)
		if sh := g.shardOf(c); sh >= 0 {
			sp.shard = sh // and as the destination half of a cross-shard call
		}
		g.do(sp)
		g.do(g.user(oracle.FnClaim, near, c, bigGas))
		g.do(g.user(oracle.FnChangeOwner, o[:31], c, bigGas, near))
		g.do(g.user(oracle.FnChangeOwner, o, c, bigGas, owner))
	}
	return true
}

// liveProtectedKeys lists protected keys that exist in the account (token / role / nonce keys).
func (g *gen) liveProtectedKeys(a []byte) [][]byte {
	var out [][]byte
	if acc := g.acct(a); acc != nil {
		for _, k := range sortedKeys(acc) {
			if len(k) >= 6 && k[:6] == oracle.Protected {
				out = append(out, []byte(k))
			}
		}
	}
	return out
}

// opSKVProtected: SaveKeyValue attempts on role / nonce / token keys, incl. multi-pair calls where the
// protected key comes in a LATER pair.
func (g *gen) opSKVProtected() bool {
	a := g.pick(g.users)
	if x, ok := g.pickHeld(anyPos); ok && g.r.Intn(2) == 0 && !oracle.IsContract(x.a) {
		a = x.a
	}
	prot := g.liveProtectedKeys(a)
	tok := g.pick(g.allTokens())
	prot = append(prot, []byte(oracle.RolePrefix+string(tok)), []byte(oracle.NoncePrefix+string(tok)), []byte(oracle.EsdtPrefix+string(tok)), []byte("ELROND"))
	pk := g.pick(prot)
	val := [][]byte{[]byte("x"), {}, bytes.Repeat([]byte{1}, 30)}[g.r.Intn(3)]
	var args [][]byte
	npairs := 1 + g.r.Intn(4)
	pos := g.r.Intn(npairs)
	for i := 0; i < npairs; i++ {
		if i == pos {
			args = append(args, pk, val)
		} else {
			args = append(args, []byte("k"+strconv.Itoa(g.r.Intn(6))), []byte("v"+strconv.Itoa(g.r.Intn(6))))
		}
	}
	g.do(g.user(oracle.FnSaveKeyValue, a, a, bigGas, args...))
	return true
}

func (g *gen) runAuthority() {
	g.setupWorld(worldOpts{activation: 0, epoch: 0})
	g.standardState()
	// two more NFT tokens on which discipline is broken on purpose
	wild := map[string]bool{}
	for i := 0; i < 2; i++ {
		tok := g.issueNFT(true, 2)
		wild[string(tok)] = true
		g.emit("#@ undisciplined " + hx(tok))
	}
	g.distribute(2 * len(g.accounts))
	g.opWideCreate()
	g.opNearMissOwner()
	g.loop([]wop{
		{1, g.opNearMissOwner}, {14, g.opRoleSubset(wild)}, {6, g.opUnsetRoles(wild)}, {30, g.opGatedByAnyone}, {12, g.opPrivilegedByUser}, {3, g.opWideCreate},
		{6, g.opHandOver}, {10, g.opAccountFns}, {8, g.opSKVProtected}, {4, g.opNFTTransfer}, {3, g.opTransfer}, {5, g.lateNetwork},
	})
}

// ---------------------------------------------------------------------------
// frame (C05)
// ---------------------------------------------------------------------------

// skvKey: key families around the protected prefix.
func (g *gen) skvKey(a []byte) []byte {
	const p = "ELROND"
	switch g.r.Intn(10) {
	case 0: // every length 0..12 around "ELROND"
		full := p + "esdtXY"
		return []byte(full[:g.r.Intn(13)])
	case 1: // case variants
		return [][]byte{[]byte("elrond"), []byte("Elrond"), []byte("ELROnD"), []byte("eLROND"), []byte("ELRONd"), []byte("ELRON"), []byte("ELROND")}[g.r.Intn(7)]
	case 2, 3: // exact live keys
		if l := g.liveProtectedKeys(a); len(l) > 0 {
			return g.pick(l)
		}
	case 4:
		tok := g.pick(g.allTokens())
		return []byte([]string{oracle.EsdtPrefix, oracle.RolePrefix, oracle.NoncePrefix}[g.r.Intn(3)] + string(tok))
	case 5:
		return []byte{}
	case 6:
		return []byte("XELROND")
	}
	return []byte("key" + strconv.Itoa(g.r.Intn(8)))
}

func (g *gen) opSKV() bool {
	a := g.pick(g.users)
	switch g.r.Intn(12) {
	case 0:
		a = g.pick(g.contracts) // contracts may not
	}
	rcv := a
	if g.r.Intn(15) == 0 {
		rcv = g.pick(g.users)
	}
	var args [][]byte
	for i := 1 + g.r.Intn(4); i > 0; i-- {
		k := g.skvKey(a)
		var v []byte
		switch g.r.Intn(5) {
		case 0:
			v = []byte{}
		case 1: // unchanged value
			if acc := g.acct(a); acc != nil {
				v = append([]byte{}, acc.Get(string(k))...)
			}
		default:
			v = bytes.Repeat([]byte{byte('a' + g.r.Intn(3))}, 1+g.r.Intn(12))
		}
		args = append(args, k, v)
	}
	if g.r.Intn(20) == 0 {
		args = args[:len(args)-1] // odd count
	}
	gas := uint64(bigGas)
	switch g.r.Intn(6) {
	case 0:
		gas = 0
	case 1:
		gas = g.cost(oracle.FnSaveKeyValue) + uint64(g.r.Intn(2000))
	}
	g.do(g.user(oracle.FnSaveKeyValue, a, rcv, gas, args...))
	return true
}

// opAnyFunction: a scenario call of a random function (a mix of all 23).
func (g *gen) opAnyFunction() bool {
	fn := oracle.AllFunctions[g.r.Intn(len(oracle.AllFunctions))]
	sp, ok := g.scenario(fn)
	if !ok {
		return false
	}
	g.do(sp)
	if fn == oracle.FnPause && g.r.Intn(2) == 0 { // do not leave everything paused
		sp.fn = oracle.FnUnPause
		g.do(sp)
	}
	return true
}

func (g *gen) runFrame() {
	g.setupWorld(worldOpts{activation: 0, epoch: 0})
	g.standardState()
	g.widenRoles()
	g.loop([]wop{{45, g.opSKV}, {35, g.opAnyFunction}, {5, g.opSKVProtected}, {5, g.opMulti}, {10, g.lateNetwork}})
}

// ---------------------------------------------------------------------------
// gas (C06, C16)
// ---------------------------------------------------------------------------

// opGasLadder: probe the exact charge c of a scenario call, then run it with gas in
// {0, c-1, c, c+1, c+small, 2^32, 2^64-1} (a failing call is rolled back, so the ladder is ascending).
func (g *gen) opGasLadder() bool {
	return g.gasLadderFor(oracle.AllFunctions[g.r.Intn(len(oracle.AllFunctions))], false)
}

// gasLadderFor: a call of fn at one or two rungs around its exact cost; with `sure` the exact cost is one of them (so a
// scenario that can succeed does, and its charge is observed).
func (g *gen) gasLadderFor(fn string, sure bool) bool {
	sp, ok := g.scenario(fn)
	if !ok {
		return false
	}
	sp.ct = []int{0, 0, 1, 2, 3}[g.r.Intn(5)]
	sp.gasLocked = uint64(g.r.Intn(3)) * 17
	// the price does not depend on the return-after-error flag (a flagged call that is short of gas is short of gas)
	sp.rae = g.r.Intn(5) == 0
	res := g.probe(sp, -1)
	if !isOK(res) {
		g.do(sp)
		return !sure
	}
	c := charge(sp, res)
	ladder := []uint64{0, c - 1, c, c + 1, c + uint64(1+g.r.Intn(500)), 1 << 32, 1<<64 - 1}
	if c == 0 {
		ladder = []uint64{0, 1, 1 << 32, 1<<64 - 1}
	}
	// one or two rungs per visit, low rungs first (they fail and leave the state alone)
	i := g.r.Intn(len(ladder))
	rungs := []uint64{ladder[g.r.Intn(i+1)], ladder[i]}
	if sure && c > 0 {
		rungs = []uint64{c - 1, c}
	}
	for _, gv := range rungs {
		sp.gas = gv
		if r := g.do(sp); isOK(r) {
			break
		}
	}
	return true
}

// opGrowingMergeLadder: an SFT transfer to a holder ON THE SAME SHARD whose existing quantity makes the merged entry
// LONGER than the transferred one (255 held + 1 arriving = 256: one more byte): the bytes copied - and charged - are those
// of the merged entry. One rung below the exact charge the call is short of gas, at the exact charge it goes through.
func (g *gen) opGrowingMergeLadder() bool {
	x, ok := g.pickHeld(func(a []byte, h holding) bool { return isNFT(a, h) && !h.frozen && h.val.BitLen() < 40 && g.shardOf(a) >= 0 })
	if !ok {
		return false
	}
	b := g.otherThan(x.a, g.sameShard(x.a))
	if b == nil {
		return false
	}
	g.setRoles(x.a, x.h.tok, oracle.RoleNFTAddQty)
	g.do(g.user(oracle.FnNFTAddQty, x.a, x.a, bigGas, x.h.tok, x.h.nb(), be(600)))
	held := big.NewInt(0)
	for _, h := range g.holdings(b) {
		if bytes.Equal(h.tok, x.h.tok) && h.nonce == x.h.nonce {
			held = h.val
		}
	}
	// bring the destination's holding to 255 mod 256 (a transfer of 1 then crosses a byte boundary of the sum)
	fill := new(big.Int).Sub(big.NewInt(255), new(big.Int).And(held, big.NewInt(255)))
	if fill.Sign() > 0 {
		g.do(g.user(oracle.FnNFTTransfer, x.a, x.a, bigGas, x.h.tok, x.h.nb(), fill.Bytes(), b))
	}
	args := [][]byte{x.h.tok, x.h.nb(), {1}, b}
	if oracle.IsContract(b) && g.r.Intn(2) == 0 {
		args = append(args, []byte("cb"), []byte{7})
	}
	sp := g.user(oracle.FnNFTTransfer, x.a, x.a, bigGas, args...)
	if g.r.Intn(3) == 0 {
		sp = g.user(oracle.FnMultiTransfer, x.a, x.a, bigGas, b, be(1), x.h.tok, x.h.nb(), []byte{1})
	}
	res := g.probe(sp, -1)
	if !isOK(res) {
		g.do(sp)
		return true
	}
	c := charge(sp, res)
	for _, gv := range []uint64{c - 1, c} {
		sp.gas = gv
		if r := g.do(sp); isOK(r) {
			break
		}
	}
	return true
}

// opGasWindow: multi transfer with 2-3 NFTs, gas in the narrow window around n*cost + sum of copy costs.
func (g *gen) opGasWindow() bool {
	x, ok := g.pickHeld(isNFT)
	if !ok {
		return false
	}
	var nfts []holding
	for _, h := range g.holdings(x.a) {
		if h.nonce > 0 && h.val.Sign() > 0 {
			nfts = append(nfts, h)
		}
	}
	n := 2 + g.r.Intn(2)
	b := g.otherThan(x.a, g.otherShard(x.a))
	if b == nil {
		b = g.otherThan(x.a, nil)
	}
	args := [][]byte{b, be(uint64(n))}
	for i := 0; i < n; i++ {
		h := nfts[g.r.Intn(len(nfts))]
		args = append(args, h.tok, h.nb(), []byte{1})
	}
	if oracle.IsContract(b) && g.r.Intn(2) == 0 {
		args = append(args, []byte("cb"), []byte{1, 2})
	}
	sp := g.user(oracle.FnMultiTransfer, x.a, x.a, bigGas, args...)
	res := g.probe(sp, -1)
	if !isOK(res) {
		g.do(sp)
		return true
	}
	c := charge(sp, res)
	base := uint64(n) * g.cost(oracle.FnMultiTransfer)
	cands := []uint64{base - 1, base, base + 1, c - 1, c, c + 1}
	if c > base {
		cands = append(cands, base+uint64(g.r.Int63n(int64(c-base))))
	}
	sort.Slice(cands, func(i, j int) bool { return cands[i] < cands[j] })
	i := g.r.Intn(len(cands))
	for _, gv := range cands[i:] {
		sp.gas = gv
		if r := g.do(sp); isOK(r) {
			break
		}
		if g.r.Intn(2) == 0 {
			break
		}
	}
	return true
}

// opGasmapChange: accepted (new distinct primes) or rejected (zero entry, missing entry, zero in the
// unused ESDTNFTChangeCreateOwner, empty map) schedule changes.
func (g *gen) opGasmapChange() bool {
	target := "*"
	next := g.primeSchedule()
	switch g.r.Intn(11) {
	case 8, 9: // an accepted change of ONE section only: the other section's prices stay exactly what they are
		keep := "BuiltInCost."
		if g.r.Intn(3) == 0 {
			keep = "BaseOperationCost."
		}
		if len(g.gas) > 0 {
			for k, v := range g.gas {
				if strings.HasPrefix(k, keep) {
					next[k] = v
				}
			}
			g.gas = next
		} else {
			g.gas = next
		}
	case 10: // the same schedule again (accepted, nothing changes)
		if len(g.gas) > 0 {
			next = g.gas
		} else {
			g.gas = next
		}
	case 0: // zero entry
		next["BuiltInCost."+builtInCostNames[g.r.Intn(len(builtInCostNames))]] = 0
	case 1:
		next["BaseOperationCost."+baseCostNames[g.r.Intn(len(baseCostNames))]] = 0
	case 2: // missing entry
		delete(next, "BuiltInCost."+builtInCostNames[g.r.Intn(len(builtInCostNames))])
	case 3:
		next["BuiltInCost.ESDTNFTChangeCreateOwner"] = 0
	case 4:
		next = map[string]uint64{}
	case 5:
		delete(next, "BaseOperationCost."+baseCostNames[g.r.Intn(len(baseCostNames))])
	default:
		g.gas = next // accepted
	}
	g.emitf("gasmap %s %s", target, gasmapString(next))
	return true
}

// opCallbackWithCall: destination-side callback with an attached call (message emitted with call type
// callback, delivered to a contract).
func (g *gen) opCallbackWithCall() bool {
	x, ok := g.pickHeld(anyPos)
	if !ok {
		return false
	}
	var l [][]byte
	for _, c := range g.contracts {
		if g.shardOf(c) != g.shardOf(x.a) {
			l = append(l, c)
		}
	}
	if len(l) == 0 {
		return false
	}
	b := g.pick(l)
	var sp spec
	if x.h.nonce == 0 {
		sp = g.user(oracle.FnTransfer, x.a, b, bigGas, x.h.tok, []byte{1}, []byte("callBack"), []byte{7})
	} else {
		sp = g.user(oracle.FnNFTTransfer, x.a, x.a, bigGas, x.h.tok, x.h.nb(), []byte{1}, b, []byte("callBack"), []byte{7})
	}
	sp.ct = 2
	sp.gasLocked = uint64(g.r.Intn(500))
	sp.gas = uint64(100000 + g.r.Intn(1000000))
	g.do(sp)
	if g.r.Intn(2) == 0 {
		g.drain()
	}
	return true
}

func (g *gen) runGas() {
	// in half of the worlds the epoch-gated functions start inactive: schedule changes made before their activation
	// epoch must price them once they are enabled
	// by seed: 1 mod 4 — activation epoch 2, a schedule change right before every epoch move; 3 mod 4 — activation epoch 1,
	// likewise; 0 and 2 mod 4 — active from the start (the schedule the factory was built with prices the first calls)
	act := uint32(0)
	switch g.seed % 4 {
	case 1:
		act = 2
	case 3:
		act = 1
	}
	g.setupWorld(worldOpts{activation: act, epoch: 0})
	g.standardState()
	g.widenRoles()
	if act == 0 {
		// the schedule the factory was BUILT with prices the first call of every function (a later schedule change would
		// overwrite a wrong binding made at construction)
		for _, fn := range oracle.AllFunctions {
			for try := 0; try < 4 && !g.gasLadderFor(fn, true); try++ {
			}
		}
	}
	cur := int64(0)
	opEpochUp := func() bool {
		if cur >= int64(act) {
			return false
		}
		// an ACCEPTED schedule change while the gated functions are still inactive, then the move; once they are
		// active, an exact-cost call of each of them before anything else can change the schedule again
		g.gas = g.primeSchedule()
		g.emitf("gasmap * %s", gasmapString(g.gas))
		cur++
		g.emitf("epoch * %d", cur)
		if cur == int64(act) {
			for _, fn := range []string{oracle.FnNFTAddURI, oracle.FnNFTUpdate, oracle.FnMultiTransfer} {
				for try := 0; try < 4 && !g.gasLadderFor(fn, true); try++ {
				}
			}
		}
		return true
	}
	g.opGrowingMergeLadder()
	g.loop([]wop{{50, g.opGasLadder}, {15, g.opGasWindow}, {4, g.opGrowingMergeLadder}, {8, g.opGasmapChange}, {8, g.opCallbackWithCall}, {5, g.opSKV}, {12, g.lateNetwork},
		{4, opEpochUp}})
}

// ---------------------------------------------------------------------------
// nonces (C07)
// ---------------------------------------------------------------------------

// reassignedNodeScenario: node 0 is reassigned to serve shard 1 IN PLACE (same container, same function objects; its
// coordinator answers SelfId() = 1 from now on). An account of shard 1 that lives on it gets a create role, creates, and
// the role is handed over to an account of shard 0 - the shard this node served when its functions were built. For the
// node as it is NOW that account is remote: the counter travels in the message, nothing is written here.
func (g *gen) reassignedNodeScenario() {
	if g.nsh < 2 {
		return
	}
	x := userAddr(40, 1)
	var u0 []byte
	for _, u := range g.users {
		if g.shardOf(u) == 0 {
			u0 = u
			break
		}
	}
	if g.shardOf(x) != 1 || u0 == nil {
		return
	}
	tok := g.newTokenID("")
	g.drain()
	g.emit("selfas 0 1")
	g.do(spec{shard: 0, fn: oracle.FnSetRole, caller: oracle.ESDTSC, rcv: x, args: [][]byte{tok, []byte(oracle.RoleNFTCreate)}})
	g.do(spec{shard: 0, fn: oracle.FnNFTCreate, caller: x, rcv: x, gas: bigGas, args: g.createArgs(tok, 1, 1)})
	g.do(spec{shard: 0, fn: oracle.FnNFTCreate, caller: x, rcv: x, gas: bigGas, args: g.createArgs(tok, 1, 1)})
	g.do(spec{shard: 0, fn: oracle.FnHandOver, caller: oracle.ESDTSC, rcv: x, args: [][]byte{tok, u0}})
	g.emit("selfas 0 own")
	// before the message arrives the next holder holds nothing yet (its attempt is refused); afterwards it continues the
	// sequence where the previous holder stopped
	g.do(g.user(oracle.FnNFTCreate, u0, u0, bigGas, g.createArgs(tok, 1, 1)...))
	g.drain()
	g.do(g.user(oracle.FnNFTCreate, u0, u0, bigGas, g.createArgs(tok, 1, 1)...))
}

func (g *gen) runNonces() {
	g.setupWorld(worldOpts{activation: 0, epoch: 0})
	g.standardState()
	g.metaNodeScenario()
	g.reassignedNodeScenario()
	// several tokens per creator, some with a pre-seeded counter
	creator := g.pick(g.accounts)
	seeds := counterSeeds
	for i := 0; i < 4; i++ {
		tok := g.newTokenID("")
		g.sft = append(g.sft, tok)
		g.setRoles(creator, tok, nftRoles...)
		for k := 0; k < 2; k++ {
			g.do(g.user(oracle.FnNFTCreate, creator, creator, bigGas, g.createArgs(tok, uint64(1+g.r.Intn(5)), 1)...))
		}
		if i > 0 { // the low nonces exist; now cross 256 / 65536 / 2^32
			g.emitf("raw %d %s %s %s", g.shardOf(creator), hx(creator), hx([]byte(oracle.NoncePrefix+string(tok))), hx(be(seeds[g.r.Intn(len(seeds))])))
		}
		for k := 0; k < 3; k++ {
			g.do(g.user(oracle.FnNFTCreate, creator, creator, bigGas, g.createArgs(tok, uint64(1+g.r.Intn(5)), 1)...))
		}
	}
	opJumpExisting := func() bool {
		toks := append(append([][]byte{}, g.sft...), g.nft...)
		tok := g.pick(toks)
		if g.creatorOf(tok) == nil {
			return false
		}
		g.jumpCounter(tok)
		return true
	}
	opSeedCounter := func() bool {
		// a fresh token whose creator's counter is seeded before the first create
		tok := g.newTokenID("")
		a := g.pick(g.accounts)
		g.sft = append(g.sft, tok)
		g.emitf("raw %d %s %s %s", g.shardOf(a), hx(a), hx([]byte(oracle.NoncePrefix+string(tok))), hx(be(seeds[g.r.Intn(len(seeds))])))
		g.setRoles(a, tok, nftRoles...)
		g.do(g.user(oracle.FnNFTCreate, a, a, bigGas, g.createArgs(tok, 2, 1)...))
		g.do(g.user(oracle.FnNFTCreate, a, a, bigGas, g.createArgs(tok, 2, 1)...))
		return true
	}
	opHandOverLate := func() bool {
		sp, ok := g.scenario(oracle.FnHandOver)
		if !ok {
			return false
		}
		old, tok, next := sp.rcv, sp.args[0], sp.args[1]
		g.do(sp)
		if g.r.Intn(2) == 0 {
			g.drainHandOvers()
		}
		// creates by the old and by the new holder (the latter possibly before the delivery); the old holder keeps its
		// other roles (add-quantity among them), so it also tries quantities above 1
		g.do(g.user(oracle.FnNFTCreate, old, old, bigGas, g.createArgs(tok, []uint64{1, 2, 7}[g.r.Intn(3)], 1)...))
		g.do(g.user(oracle.FnNFTCreate, next, next, bigGas, g.createArgs(tok, []uint64{1, 1, 3}[g.r.Intn(3)], 1)...))
		if g.r.Intn(2) == 0 {
			g.drainHandOvers()
			g.do(g.user(oracle.FnNFTCreate, next, next, bigGas, g.createArgs(tok, 1, 1)...))
		}
		// the new holder also needs the other NFT roles to be useful later
		if g.r.Intn(2) == 0 && !g.handOverInFlight(tok) {
			g.setRoles(next, tok, oracle.RoleNFTAddQty, oracle.RoleNFTBurn)
		}
		return true
	}
	// opRevokeRegrant: the system contract takes ALL the roles of a token's creator away (one call, then the roles one by
	// one on the next turn), gives them back, and the creator creates again: the counter lives with the account, not with
	// the role list, so the next nonce continues where it stopped
	revokeTurn := 0
	opRevokeRegrant := func() bool {
		toks := append(append([][]byte{}, g.sft...), g.nft...)
		var tok, a []byte
		for i, o := 0, g.r.Intn(len(toks)); i < len(toks) && a == nil; i++ {
			if t := toks[(o+i)%len(toks)]; !g.handOverInFlight(t) {
				tok, a = t, g.creatorOf(t)
			}
		}
		if a == nil {
			return false
		}
		roles := g.rolesOf(a, tok)
		var rb [][]byte
		for _, r := range roles {
			rb = append(rb, []byte(r))
		}
		revokeTurn++
		if revokeTurn%2 == 1 {
			g.do(g.sys(oracle.FnUnSetRole, a, append([][]byte{tok}, rb...)...))
		} else {
			for _, r := range rb {
				g.do(g.sys(oracle.FnUnSetRole, a, tok, r))
			}
		}
		g.do(g.sys(oracle.FnSetRole, a, append([][]byte{tok}, rb...)...))
		g.do(g.user(oracle.FnNFTCreate, a, a, bigGas, g.createArgs(tok, 1, 1)...))
		return true
	}
	opRevokeRegrant()
	opRevokeRegrant()
	g.loop([]wop{
		{2, opRevokeRegrant}, {34, g.opCreate}, {12, g.opNFTBurn}, {12, g.opNFTTransfer}, {6, g.opMulti}, {14, opHandOverLate}, {2, opSeedCounter}, {1, opJumpExisting},
		{5, g.opAddQty}, {4, g.opFullQuantity}, {10, g.lateNetwork},
	})
}

// ---------------------------------------------------------------------------
// metadata (C08)
// ---------------------------------------------------------------------------

func (g *gen) runMetadata() {
	g.setupWorld(worldOpts{activation: uint32(g.r.Intn(2)), epoch: 1 + int64(g.r.Intn(3))})
	g.standardState()
	g.widenRoles()
	// the sink: an account that never sends; it gets forged entries (same nonce, other hash) via raw
	sink := g.users[len(g.users)-1]
	g.sink[string(sink)] = true
	royalties := [][]byte{{}, {1}, be(10000), be(10001), be(1 << 32), be(1<<32 + 1)}
	opCreateVaried := func() bool {
		toks := append(append([][]byte{}, g.sft...), g.nft...)
		tok := g.pick(toks)
		a := g.creatorOf(tok)
		if a == nil {
			return false
		}
		field := func() []byte {
			switch g.r.Intn(4) {
			case 0:
				return []byte{}
			case 1:
				return bytes.Repeat([]byte{byte(g.r.Intn(256))}, 100+g.r.Intn(400))
			}
			return []byte("f" + strconv.Itoa(g.r.Intn(1000)))
		}
		q := uint64(1)
		for _, t := range g.sft {
			if bytes.Equal(t, tok) {
				q = uint64(2 + g.r.Intn(20))
			}
		}
		args := [][]byte{tok, be(q), field(), royalties[g.r.Intn(len(royalties))], field(), field()}
		for i := g.r.Intn(5); i > 0; i-- {
			if g.r.Intn(4) == 0 {
				args = append(args, []byte{})
			} else {
				args = append(args, []byte("https://u/"+strconv.Itoa(g.r.Intn(99))))
			}
		}
		if g.r.Intn(6) == 0 {
			args = args[:6] // no URI argument at all: rejected (needs 7)
		}
		g.do(g.user(oracle.FnNFTCreate, a, a, bigGas, args...))
		return true
	}
	// route: 1..5 hops of one NFT, mixing same-shard / cross-shard, single and multi transfers
	opRoute := func() bool {
		x, ok := g.pickHeld(isNFT)
		if !ok {
			return false
		}
		cur, tok, nonce := x.a, x.h.tok, x.h.nonce
		for hop := 1 + g.r.Intn(5); hop > 0 && !g.full(); hop-- {
			bal := g.holdingOf(cur, tok, nonce)
			if bal.Sign() <= 0 || g.sink[string(cur)] {
				break
			}
			next := g.otherThan(cur, nil)
			if g.r.Intn(8) == 0 {
				next = sink
			}
			amt := g.smallPart(bal, 1)
			if g.r.Intn(3) == 0 {
				amt = bal.Bytes()
			}
			g.do(g.user(oracle.FnNFTTransfer, cur, cur, bigGas, tok, oracle.NonceBytes(nonce), amt, next))
			if g.r.Intn(3) > 0 {
				g.drain()
			}
			if g.holdingOf(next, tok, nonce).Sign() > 0 {
				cur = next
			}
		}
		return true
	}
	opRouteMulti := func() bool {
		x, ok := g.pickHeld(isNFT)
		if !ok {
			return false
		}
		hs := g.holdings(x.a)
		next := g.otherThan(x.a, nil)
		if g.r.Intn(8) == 0 {
			next = sink
		}
		n := 1 + g.r.Intn(3)
		args := [][]byte{next, be(uint64(n))}
		for i := 0; i < n; i++ {
			h := hs[g.r.Intn(len(hs))]
			if h.val.Sign() <= 0 {
				h = x.h
			}
			args = append(args, h.tok, h.nb(), g.smallPart(h.val, n))
		}
		g.do(g.user(oracle.FnMultiTransfer, x.a, x.a, bigGas, args...))
		if g.r.Intn(3) > 0 {
			g.drain()
		}
		return true
	}
	// forge: the sink holds the same (token, nonce) with the same or a different hash
	opForge := func() bool {
		x, ok := g.pickHeld(isNFT)
		if !ok {
			return false
		}
		t := *x.h.info.Tok
		m := *t.TokenMetaData
		t.TokenMetaData = &m
		t.Value = big.NewInt(int64(1 + g.r.Intn(5)))
		switch g.r.Intn(5) {
		case 0: // the same hash: the genuine one is accepted on top
		case 1: // an EMPTY hash on the destination's entry is a different hash too
			m.Hash = nil
		default:
			m.Hash = append([]byte("forged"), byte(g.r.Intn(256)))
		}
		b, err := t.Marshal()
		if err != nil {
			return false
		}
		g.emitf("raw %d %s %s %s", g.shardOf(sink), hx(sink), hx([]byte(oracle.TokenKey(x.h.tok, x.h.nonce))), hx(b))
		// and send the genuine one there, by single or by multi transfer
		if g.r.Intn(2) == 0 {
			g.do(g.user(oracle.FnNFTTransfer, x.a, x.a, bigGas, x.h.tok, x.h.nb(), g.smallPart(x.h.val, 1), sink))
		} else {
			g.do(g.user(oracle.FnMultiTransfer, x.a, x.a, bigGas, sink, be(1), x.h.tok, x.h.nb(), g.smallPart(x.h.val, 1)))
		}
		g.drain()
		return true
	}
	// second leg after a metadata change: part of a holding goes to B, the holder (with the role) changes the attributes /
	// adds a URI on what it kept, then sends more of the same (token, nonce) to B: B's copy is stale, the hash is the same
	// (possibly empty on both sides) - the second leg is accepted and B ends up with the metadata that travelled
	opSecondLegAfterUpdate := func() bool {
		x, ok := g.pickHeld(func(a []byte, h holding) bool {
			return isNFT(a, h) && h.val.Cmp(big.NewInt(3)) >= 0 && !g.sink[string(a)] &&
				(has(g.rolesOf(a, h.tok), oracle.RoleNFTUpdateAtt) || has(g.rolesOf(a, h.tok), oracle.RoleNFTAddURI))
		})
		if !ok {
			return false
		}
		b := g.otherThan(x.a, nil)
		if b == nil || g.sink[string(b)] {
			return false
		}
		tok, nb := x.h.tok, x.h.nb()
		leg := func() {
			if g.r.Intn(3) == 0 {
				g.do(g.user(oracle.FnNFTTransfer, x.a, x.a, bigGas, tok, nb, []byte{1}, b))
			} else {
				g.do(g.user(oracle.FnMultiTransfer, x.a, x.a, bigGas, b, be(1), tok, nb, []byte{1}))
			}
			g.drain()
		}
		leg()
		if has(g.rolesOf(x.a, tok), oracle.RoleNFTUpdateAtt) && g.r.Intn(3) > 0 {
			g.do(g.user(oracle.FnNFTUpdate, x.a, x.a, bigGas, tok, nb, []byte("attr-v"+strconv.Itoa(g.r.Intn(100)))))
		} else {
			g.do(g.user(oracle.FnNFTAddURI, x.a, x.a, bigGas, tok, nb, []byte("uri-late")))
		}
		leg()
		return true
	}
	// a refund that comes home to ANOTHER NFT: only possible outside single-creator discipline (two creators mint one
	// nonce with two hashes). A sends hers to a contract elsewhere that does not accept payments, B sends his to A, the
	// refused message comes back flagged return-after-error: A holds another hash now - the refund is refused like any
	// other credit of a different NFT (the flag lifts the freeze / pause gate, not the identity of the token).
	opTwoCreatorsRefund := func() bool {
		var a, b, c []byte
		for _, u := range g.users {
			if g.sink[string(u)] || g.shardOf(u) < 0 {
				continue
			}
			if a == nil {
				a = u
			} else if b == nil && g.shardOf(u) == g.shardOf(a) {
				b = u
			}
		}
		for _, k := range g.contracts {
			if a != nil && g.shardOf(k) >= 0 && g.shardOf(k) != g.shardOf(a) {
				c = k
				break
			}
		}
		if a == nil || b == nil || c == nil {
			return false
		}
		tok := g.newTokenID("")
		g.drain()
		g.do(g.sys(oracle.FnSetRole, a, tok, []byte(oracle.RoleNFTCreate)))
		g.do(g.sys(oracle.FnSetRole, b, tok, []byte(oracle.RoleNFTCreate)))
		g.do(g.user(oracle.FnNFTCreate, a, a, bigGas, tok, be(1), []byte("of-a"), be(100), []byte("hash-a"), []byte("attr-a"), []byte("uri-a")))
		g.do(g.user(oracle.FnNFTCreate, b, b, bigGas, tok, be(1), []byte("of-b"), be(200), []byte("hash-b"), []byte("attr-b"), []byte("uri-b")))
		g.emitf("payable %s no", hx(c))
		multi := g.r.Intn(2) == 0
		if multi {
			g.do(g.user(oracle.FnMultiTransfer, a, a, bigGas, c, be(1), tok, be(1), be(1)))
		} else {
			g.do(g.user(oracle.FnNFTTransfer, a, a, bigGas, tok, be(1), be(1), c))
		}
		g.do(g.user(oracle.FnNFTTransfer, b, b, bigGas, tok, be(1), be(1), a))
		g.drain()
		g.emitf("payable %s yes", hx(c))
		return true
	}
	opTwoCreatorsRefund()
	g.loop([]wop{{1, opTwoCreatorsRefund}, {22, opCreateVaried}, {30, opRoute}, {14, opRouteMulti}, {6, opForge}, {10, g.opAddURI}, {10, g.opUpdateAttr}, {8, g.lateNetwork}, {8, opSecondLegAfterUpdate}})
}

// ---------------------------------------------------------------------------
// adversarial (C11)
// ---------------------------------------------------------------------------

func (g *gen) opAdversarial() bool {
	fn := oracle.AllFunctions[g.r.Intn(len(oracle.AllFunctions))]
	n := g.r.Intn(13)
	args := make([][]byte, n)
	for i := range args {
		args[i] = g.advItem()
	}
	caller := g.pick(g.accounts)
	rcv := caller
	sysCall := false
	switch {
	case fn == oracle.FnNFTTransfer || fn == oracle.FnMultiTransfer:
		// destination-form payloads on the destination shard are protocol messages, never hand-crafted; but a user can
		// SUBMIT a destination-form call (receiver ≠ caller): it runs on the sender's shard and must be refused there
		if g.r.Intn(3) > 0 {
			if x, ok := g.pickHeld(anyPos); ok {
				caller, rcv = x.a, x.a
				if n > 0 && fn == oracle.FnNFTTransfer {
					args[0] = x.h.tok
				}
			}
		}
		if g.r.Intn(5) == 0 {
			rcv = g.otherThan(caller, nil)
		}
	case oracle.IsTransferFn(fn) || fn == oracle.FnBurn:
		rcv = g.pick(append(append([][]byte{g.meta, oracle.ESDTSC}, g.accounts...), g.accounts...))
	default:
		switch g.r.Intn(4) {
		case 0:
			rcv = g.pick(g.accounts)
		case 1: // system-contract caller with disciplined token ids (E5)
			sysCall = fn != oracle.FnTransfer
		}
	}
	if sysCall {
		caller = oracle.ESDTSC
		rcv = g.pick(g.accounts)
		if (fn == oracle.FnPause || fn == oracle.FnUnPause) && g.r.Intn(4) > 0 {
			rcv = oracle.SystemAccount // else: a pause addressed to an ordinary account — must be refused
		}
		if n > 0 {
			args[0] = g.pick(g.allTokens())
		}
		if fn == oracle.FnSetRole || fn == oracle.FnUnSetRole || fn == oracle.FnHandOver {
			// keep single-creator discipline: these go through the disciplined helpers only — except in forms that are
			// refused whatever the state (too few arguments; a hand-over without exactly two, or with a next holder
			// that is not an address)
			refused := n < 2 || (fn == oracle.FnHandOver && (n != 2 || len(args[1]) != 32))
			if !refused {
				return false
			}
		}
	}
	sp := spec{shard: g.shardOf(caller), fn: fn, caller: caller, rcv: rcv, args: args}
	if sysCall {
		sp.shard = g.shardOf(rcv)
		if rcv[0] == 0xff {
			sp.shard = g.r.Intn(g.nsh)
		}
	}
	sp.gas = []uint64{0, 1, bigGas, bigGas, 1<<64 - 1, uint64(g.r.Intn(100000))}[g.r.Intn(6)]
	sp.gasLocked = []uint64{0, 0, 0, 5, 1<<64 - 1}[g.r.Intn(5)]
	sp.ct = g.r.Intn(4)
	sp.rae = g.r.Intn(2) == 0
	switch g.r.Intn(12) {
	case 0:
		sp.value = "1"
	case 1:
		sp.value = "-1"
	}
	if sysCall {
		sp.rae = false
		sp.value = "0"
	}
	g.do(sp)
	return true
}

// opSemiValid: a scenario call with one argument replaced / dropped / an adversarial item appended.
func (g *gen) opSemiValid() bool {
	fn := oracle.AllFunctions[g.r.Intn(len(oracle.AllFunctions))]
	if fn == oracle.FnSetRole || fn == oracle.FnUnSetRole || fn == oracle.FnHandOver {
		return false
	}
	sp, ok := g.scenario(fn)
	if !ok {
		return false
	}
	sys := bytes.Equal(sp.caller, oracle.ESDTSC)
	switch g.r.Intn(4) {
	case 0:
		if len(sp.args) > 0 {
			i := g.r.Intn(len(sp.args))
			if !(sys && i == 0) {
				sp.args[i] = g.advItem()
			}
		}
	case 1:
		if len(sp.args) > 0 {
			sp.args = sp.args[:len(sp.args)-1]
		}
	case 2:
		sp.args = append(sp.args, g.advItem())
	case 3:
		if !sys {
			sp.ct = g.r.Intn(4)
			sp.rae = g.r.Intn(2) == 0
		}
	}
	g.do(sp)
	return true
}

func (g *gen) runAdversarial() {
	g.setupWorld(worldOpts{activation: 0, epoch: 0})
	g.standardState()
	g.widenRoles()
	opRoles := func() bool {
		fn := []string{oracle.FnSetRole, oracle.FnUnSetRole}[g.r.Intn(2)]
		sp, ok := g.scenario(fn)
		if !ok {
			return false
		}
		g.do(sp)
		return true
	}
	// empty list elements: an NFT created with EMPTY attributes whose last URI is empty, an empty URI added to an NFT
	// without attributes, an empty role set - the encoder must cope with zero-length elements of repeated fields
	opEmptyElements := func() bool {
		toks := append(append([][]byte{}, g.sft...), g.nft...)
		tok := g.pick(toks)
		a := g.creatorOf(tok)
		if a == nil {
			return false
		}
		args := g.createArgs(tok, 1, 2)
		args[5] = []byte{}
		args[len(args)-1] = []byte{}
		if g.r.Intn(2) == 0 {
			args[len(args)-2] = []byte{}
		}
		r := g.do(g.user(oracle.FnNFTCreate, a, a, bigGas, args...))
		if isOK(r) && len(r.Out.ReturnData) == 1 && has(g.rolesOf(a, tok), oracle.RoleNFTAddURI) {
			g.do(g.user(oracle.FnNFTAddURI, a, a, bigGas, tok, r.Out.ReturnData[0], []byte{}))
			g.do(g.user(oracle.FnNFTAddURI, a, a, bigGas, tok, r.Out.ReturnData[0], []byte("u"), []byte{}))
		}
		g.do(g.sys(oracle.FnSetRole, g.pick(g.accounts), tok, []byte{}))
		return true
	}
	g.opWideNonceOnFungible()
	opEmptyElements()
	g.loop([]wop{{3, g.opWideNonceOnFungible}, {54, g.opAdversarial}, {18, g.opSemiValid}, {4, opRoles}, {6, g.opAlias}, {3, g.opAliasTokens}, {2, g.opAliasRoleHolder}, {4, g.opMulti}, {3, g.opNFTTransfer}, {3, g.opTransfer}, {8, g.lateNetwork}, {3, g.opThinSecondLeg}, {3, opEmptyElements}})
}

// ---------------------------------------------------------------------------
// faults (C17)
// ---------------------------------------------------------------------------

func (g *gen) runFaults() {
	g.setupWorld(worldOpts{activation: 0, epoch: 0})
	g.emit("trace 1")
	g.standardState()
	g.widenRoles()
	fi := 0
	for idle := 0; !g.full() && idle < 100000; idle++ {
		// deliveries and refunds are scenarios too
		var line func() // emits the call once
		var n int
		if pd, rp := g.c.Pending(), g.c.RefundPending(); (len(pd) > 0 || len(rp) > 0) && g.r.Intn(3) == 0 {
			if len(rp) > 0 {
				m := rp[0]
				c, _ := g.w.ParseCallLine(m.RefundLine())
				res := g.w.Probe(c, -1)
				n = len(res.Deps)
				line = func() { g.refund(m) }
			} else {
				m := pd[0]
				c, _ := g.w.ParseCallLine(m.DeliveryLine(g.w))
				res := g.w.Probe(c, -1)
				n = len(res.Deps)
				line = func() { g.deliver(m) }
			}
		} else {
			fn := oracle.AllFunctions[fi%len(oracle.AllFunctions)]
			fi++
			sp, ok := g.scenario(fn)
			if !ok {
				continue
			}
			res := g.probe(sp, -1)
			if !isOK(res) {
				continue
			}
			n = len(res.Deps)
			line = func() { g.do(sp) }
		}
		for k := 0; k < n; k++ {
			g.emitf("fault %d", k)
			line()
		}
		line()
	}
	g.drain()
}

// ---------------------------------------------------------------------------
// determinism (C13): a mix of transfers and supply; the Session compares with a second world and
// checks that inputs are untouched
// ---------------------------------------------------------------------------

// opPauseSequences: two fixed pause / un-pause sequences on ONE shard's (long-lived) pause objects: pause A, un-pause A,
// pause B; then pause A, pause C, un-pause A. Each step's flag must be what a fresh object writes (no random choice
// beyond the tokens).
func (g *gen) opPauseSequences() bool {
	t := g.allTokens()
	if len(t) < 3 {
		return false
	}
	o := g.r.Intn(len(t))
	a, b, c := t[o], t[(o+1)%len(t)], t[(o+2)%len(t)]
	shard := g.r.Intn(g.nsh)
	isPaused := map[string]bool{}
	for _, p := range g.pausedTokens(shard) {
		isPaused[string(p)] = true
	}
	for _, x := range [][]byte{a, b, c} {
		if isPaused[string(x)] {
			g.do(spec{shard: shard, fn: oracle.FnUnPause, caller: oracle.ESDTSC, rcv: oracle.SystemAccount, args: [][]byte{x}})
		}
	}
	step := func(fn string, tok []byte) {
		g.do(spec{shard: shard, fn: fn, caller: oracle.ESDTSC, rcv: oracle.SystemAccount, args: [][]byte{tok}})
	}
	step(oracle.FnPause, a)
	step(oracle.FnUnPause, a)
	step(oracle.FnPause, b)
	step(oracle.FnPause, a)
	step(oracle.FnPause, c)
	step(oracle.FnUnPause, a)
	step(oracle.FnUnPause, b)
	step(oracle.FnUnPause, c)
	return true
}

func (g *gen) runDeterminism() {
	g.setupWorld(worldOpts{activation: 0, epoch: 0})
	// the accounts of this profile's world keep and hand out value slices BY REFERENCE (as the repository's mock.Account
	// does): a function that writes into a value it retrieved, or keeps a slice it saved, changes state behind the
	// world's back - visible against the model and against the fresh-object replica (which gets deep copies)
	g.emit("aliasing on")
	g.standardState()
	g.widenRoles()
	g.opPauseSequences()
	// role lists are ordered: take one role out of a list of three or more (two or more stay, so an implementation that
	// rebuilds the list from an unordered container shows), put it back, and hand create roles over
	opRoleChurn := func() bool {
		t := g.allTokens()
		for try := 0; try < 12 && len(t) > 0; try++ {
			tok, a := g.pick(t), g.pick(g.accounts)
			var held []string
			for _, r := range g.rolesOf(a, tok) {
				if r != oracle.RoleNFTCreate {
					held = append(held, r)
				}
			}
			if len(g.rolesOf(a, tok)) < 3 || len(held) == 0 {
				continue
			}
			r := held[g.r.Intn(len(held))]
			g.do(g.sys(oracle.FnUnSetRole, a, tok, []byte(r)))
			switch g.r.Intn(4) {
			case 0, 1:
				g.do(g.sys(oracle.FnSetRole, a, tok, []byte(r)))
			case 2:
				// a set that lists a role the account still holds BEFORE the one it lacks (outside the system contract's
				// discipline, which is irrelevant here: whatever the arguments are, the call must not rewrite them)
				if len(held) > 1 {
					h2 := held[(g.r.Intn(len(held)-1)+1+indexOf(held, r))%len(held)]
					g.do(g.sys(oracle.FnSetRole, a, tok, []byte(h2), []byte(r)))
				}
			}
			return true
		}
		return false
	}
	opHandOver := func() bool {
		sp, ok := g.scenario(oracle.FnHandOver)
		if !ok {
			return false
		}
		g.do(sp)
		return true
	}
	g.loop([]wop{
		{2, g.opPauseSequences}, {12, g.opTransfer}, {12, g.opNFTTransfer}, {16, g.opMulti}, {8, g.opMint}, {6, g.opLocalBurn}, {5, g.opESDTBurn},
		{8, g.opCreate}, {6, g.opAddQty}, {6, g.opNFTBurn}, {3, g.opAddURI}, {3, g.opUpdateAttr}, {3, g.opFreezeThenWipe},
		{4, g.opSKV}, {3, g.opAnyFunction}, {10, g.lateNetwork}, {2, g.opPayableFlip}, {4, opRoleChurn}, {1, opHandOver}, {3, g.opFrozenZeroCredit}, {4, g.opPauseToggle}, {2, g.opFreezeToggle},
		// output.go: merging never writes its inputs, not even the spare capacity behind their transfer slices
		{2, func() bool { g.emit(g.mergeseqLine()); return true }},
	})
}

func indexOf(l []string, x string) int {
	for i, y := range l {
		if y == x {
			return i
		}
	}
	return 0
}
