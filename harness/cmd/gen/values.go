package main

import (
	"bytes"
	"math/big"

	"verifharness/oracle"
)

var (
	two64   = new(big.Int).Lsh(big.NewInt(1), 64)
	two64p1 = new(big.Int).Add(two64, big.NewInt(1))
)

// wrapResidues: counts n with 3n+c ≡ small (mod 2^64), and neighbours.
var wrapResidues = []uint64{0x5555555555555556, 0xAAAAAAAAAAAAAAAB, 0x5555555555555555, 0xAAAAAAAAAAAAAAAA, 0x5555555555555557, 0xAAAAAAAAAAAAAAAC, 0xFFFFFFFFFFFFFFFF, 0x8000000000000000}

func bigBytes(v *big.Int) []byte {
	if v.Sign() <= 0 {
		return []byte{}
	}
	return v.Bytes()
}

// pad sometimes prepends zero bytes (numbers are read big-endian, leading zeros are legal).
func (g *gen) pad(b []byte) []byte {
	if g.r.Intn(12) == 0 {
		return append(make([]byte, 1+g.r.Intn(2)), b...)
	}
	return b
}

// amtFor: holdings-aware amount {0, 1, bal-1, bal, bal+1, 2^64, 2^64+1, random <= bal}; ~75 % spendable.
func (g *gen) amtFor(bal *big.Int) []byte {
	one := big.NewInt(1)
	switch g.r.Intn(20) {
	case 0:
		if g.r.Intn(2) == 0 {
			return []byte{}
		}
		return []byte{0}
	case 1, 2:
		return g.pad([]byte{1})
	case 3, 4:
		return g.pad(bigBytes(new(big.Int).Sub(bal, one)))
	case 5, 6, 7:
		return g.pad(bigBytes(bal))
	case 8, 9:
		return g.pad(bigBytes(new(big.Int).Add(bal, one)))
	case 10:
		return two64.Bytes()
	case 11:
		return two64p1.Bytes()
	default:
		if bal.Sign() <= 0 {
			return []byte{1}
		}
		v := new(big.Int).Rand(g.r, bal)
		if v.Sign() == 0 {
			v = one
		}
		return g.pad(v.Bytes())
	}
}

// smallPart: an amount that is certainly spendable several times over (multi with repeated tokens).
func (g *gen) smallPart(bal *big.Int, parts int) []byte {
	v := new(big.Int).Div(bal, big.NewInt(int64(parts+1)))
	if v.Sign() == 0 {
		v = big.NewInt(1)
	}
	if g.r.Intn(3) == 0 {
		v = big.NewInt(1)
	}
	return v.Bytes()
}

// partOrAll: the whole holding one time in four (the entry is then deleted: a different write path), else smallPart.
func (g *gen) partOrAll(bal *big.Int, parts int) []byte {
	if bal.Sign() > 0 && g.r.Intn(4) == 0 {
		return new(big.Int).Set(bal).Bytes()
	}
	return g.smallPart(bal, parts)
}

// gasFor: {0, cost-1, cost, cost+1, big}; mostly big.
func (g *gen) gasFor(cost uint64) uint64 {
	switch g.r.Intn(16) {
	case 0:
		return 0
	case 1:
		if cost > 0 {
			return cost - 1
		}
		return 0
	case 2:
		return cost
	case 3:
		return cost + 1
	case 4:
		return cost + uint64(g.r.Intn(3000))
	default:
		return bigGas
	}
}

// callType: all four call types, mostly direct.
func (g *gen) callType() int {
	switch g.r.Intn(10) {
	case 0:
		return 1
	case 1:
		return 2
	case 2:
		return 3
	}
	return 0
}

// attach: optional attached call (fn name + 0..2 args; sometimes empty fn / empty args / '@' in the name).
func (g *gen) attach(args [][]byte) [][]byte {
	if g.r.Intn(3) != 0 {
		return args
	}
	switch g.r.Intn(12) {
	case 0:
		args = append(args, []byte{})
	case 1:
		args = append(args, []byte("a@b"))
	case 2:
		args = append(args, []byte(oracle.FnTransfer)) // a built-in name as attached function
	default:
		args = append(args, []byte([]string{"fn", "doSomething", "f0"}[g.r.Intn(3)]))
	}
	for i := g.r.Intn(3); i > 0; i-- {
		switch g.r.Intn(4) {
		case 0:
			args = append(args, []byte{})
		case 1:
			args = append(args, []byte{0})
		default:
			args = append(args, []byte{byte(g.r.Intn(256)), byte(g.r.Intn(256))})
		}
	}
	return args
}

// nonceArg: adversarial nonce encodings {none, 00, 1..3, 8- and 9-byte values, 2^64, 2^64+1}.
func (g *gen) nonceArg() []byte {
	switch g.r.Intn(12) {
	case 0:
		return []byte{}
	case 1:
		return []byte{0}
	case 2:
		return []byte{0, 0, 0, 0, 0, 0, 0, byte(1 + g.r.Intn(3))} // 8-byte
	case 3:
		return []byte{1, 0, 0, 0, 0, 0, 0, 0, byte(1 + g.r.Intn(3))} // 9-byte: 2^64 + n, truncates to n
	case 4:
		return two64.Bytes()
	case 5:
		return two64p1.Bytes()
	case 6:
		return []byte{0xff, 0xff, 0xff, 0xff, 0xff, 0xff, 0xff, 0xff}
	default:
		return []byte{byte(1 + g.r.Intn(3))}
	}
}

// aliasID: an id that aliases / is prefix-related to tok.
func (g *gen) aliasID(tok []byte) []byte {
	switch g.r.Intn(6) {
	case 0:
		return append(append([]byte{}, tok...), byte(1+g.r.Intn(3))) // T + nonce byte
	case 1:
		if len(tok) > 1 {
			return append([]byte{}, tok[:len(tok)-1]...) // proper prefix
		}
		return []byte{}
	case 2:
		return []byte{}
	case 3:
		return append(append([]byte{}, tok...), 0)
	case 4:
		if len(tok) > 2 {
			return append([]byte{}, tok[:len(tok)-2]...)
		}
		return []byte{}
	default:
		return bytes.ToLower(tok)
	}
}

// advItem: an adversarial argument.
func (g *gen) advItem() []byte {
	switch g.r.Intn(22) {
	case 0:
		return []byte{}
	case 1:
		return []byte{0}
	case 2:
		return []byte{0, 0}
	case 3:
		return []byte{1}
	case 4:
		return be(uint64(g.r.Intn(5)))
	case 5:
		return be(wrapResidues[g.r.Intn(len(wrapResidues))])
	case 6:
		return append([]byte{1}, be(wrapResidues[g.r.Intn(len(wrapResidues))])...) // 9 bytes
	case 7:
		return []byte{0xff, 0xff, 0xff, 0xff, 0xff, 0xff, 0xff, 0xff}
	case 8:
		return two64.Bytes()
	case 9:
		return two64p1.Bytes()
	case 10:
		if t := g.allTokens(); len(t) > 0 {
			return g.pick(t)
		}
		return []byte("TOK-000000")
	case 11:
		if t := g.allTokens(); len(t) > 0 {
			return g.aliasID(g.pick(t))
		}
		return []byte("TOK")
	case 12:
		return g.pick(g.accounts)
	case 13:
		a := g.pick(g.accounts)
		switch g.r.Intn(3) {
		case 0:
			return append([]byte{}, a[:31]...)
		case 1:
			return append(append([]byte{}, a...), 0)
		}
		return append([]byte{}, a[1:]...)
	case 14:
		return []byte(oracle.AllRoles[g.r.Intn(len(oracle.AllRoles))])
	case 15:
		return []byte(oracle.EsdtPrefix + "X")
	case 16:
		b := make([]byte, g.r.Intn(40))
		g.r.Read(b)
		return b
	case 17:
		return g.meta
	case 18:
		return oracle.SystemAccount[:29+g.r.Intn(3)] // never the system account itself (E6)
	case 19:
		return be(uint64(1) << uint(g.r.Intn(64)))
	case 20:
		return bytes.Repeat([]byte{byte(g.r.Intn(256))}, 100+g.r.Intn(2))
	default:
		return []byte{byte(g.r.Intn(256))}
	}
}

// aliasPair re-spells the holding (tok, nonce) as another (id, nonce argument) that maps to the SAME
// storage key: the nonce bytes moved into the id, the last id byte moved into the nonce, or a nonce
// that is 0 modulo 2^64 on a fungible holding.
func (g *gen) aliasPair(h holding) (tok, nb []byte) {
	if h.nonce > 0 {
		full := append(append([]byte{}, h.tok...), h.nb()...)
		switch g.r.Intn(3) {
		case 0:
			return full, []byte{} // T||n, nonce 0
		case 1:
			return full, []byte{0}
		default:
			k := g.r.Intn(len(h.nb()) + 1)
			return full[:len(h.tok)+k], append([]byte{}, h.nb()[k:]...)
		}
	}
	switch g.r.Intn(3) {
	case 0:
		if len(h.tok) > 1 {
			return append([]byte{}, h.tok[:len(h.tok)-1]...), []byte{h.tok[len(h.tok)-1]} // last byte read as nonce
		}
	case 1:
		return h.tok, two64.Bytes() // nonce = 2^64: zero after truncation
	}
	return h.tok, append([]byte{byte(1 + g.r.Intn(3))}, make([]byte, 8)...) // k * 2^64
}
