// Command gen generates op files for the differential harness, state-aware: every line it writes
// has already been executed on a private world observed by the property checker.
//
//	gen -profile <name> -seed <n> -n <numOps> -out <dir> [-thorough]
//
// Output: <dir>/<name>.ops, <dir>/<name>.impl.obs (what `harness exec < ops` prints),
// <dir>/<name>.findings.jsonl (what `harness oracle < ops` prints), <dir>/<name>.stats.json.
package main

import (
	"bufio"
	"encoding/json"
	"flag"
	"fmt"
	"os"
	"path/filepath"
	"runtime/pprof"
	"sort"
	"time"
)

var profiles = map[string]func(g *gen){
	"transfers":   (*gen).runTransfers,
	"onechain":    (*gen).runOneChain,
	"supply":      (*gen).runSupply,
	"authority":   (*gen).runAuthority,
	"gates":       (*gen).runGates,
	"frame":       (*gen).runFrame,
	"gas":         (*gen).runGas,
	"nonces":      (*gen).runNonces,
	"metadata":    (*gen).runMetadata,
	"adversarial": (*gen).runAdversarial,
	"faults":      (*gen).runFaults,
	"determinism": (*gen).runDeterminism,
	"activation":  (*gen).runActivation,
	"parsers":     (*gen).runParsers,
	"codec":       (*gen).runCodec,
	"helpers":     (*gen).runHelpers,
	"mapspec":     (*gen).runMapSpec,
}

func profileNames() []string {
	var l []string
	for k := range profiles {
		l = append(l, k)
	}
	sort.Strings(l)
	return l
}

func main() {
	profile := flag.String("profile", "", "profile name")
	seed := flag.Int64("seed", 1, "random seed")
	n := flag.Int("n", 3000, "number of ops (random part)")
	out := flag.String("out", ".", "output directory")
	thorough := flag.Bool("thorough", false, "thorough mode (larger exhaustive families)")
	quiet := flag.Bool("q", false, "do not print the summary line")
	cpuprof := flag.String("cpuprofile", "", "write a CPU profile (diagnostics)")
	flag.Parse()
	if *cpuprof != "" {
		if f, err := os.Create(*cpuprof); err == nil {
			pprof.StartCPUProfile(f)
			defer pprof.StopCPUProfile()
		}
	}

	run, ok := profiles[*profile]
	if !ok {
		fmt.Fprintf(os.Stderr, "gen: unknown profile %q; profiles: %v\n", *profile, profileNames())
		os.Exit(2)
	}
	if err := os.MkdirAll(*out, 0o755); err != nil {
		fmt.Fprintln(os.Stderr, "gen:", err)
		os.Exit(1)
	}
	create := func(suffix string) *os.File {
		f, err := os.Create(filepath.Join(*out, *profile+suffix))
		if err != nil {
			fmt.Fprintln(os.Stderr, "gen:", err)
			os.Exit(1)
		}
		return f
	}
	fo, fb := create(".ops"), create(".impl.obs")
	wo, wb := bufio.NewWriterSize(fo, 1<<20), bufio.NewWriterSize(fb, 1<<20)

	start := time.Now()
	g := newGen(*profile, *seed, *n, wo, wb)
	g.thorough = *thorough
	run(g)
	elapsed := time.Since(start)

	wo.Flush()
	wb.Flush()
	fo.Close()
	fb.Close()

	ff := create(".findings.jsonl")
	wf := bufio.NewWriter(ff)
	for _, f := range g.c.Findings() {
		b, _ := json.Marshal(f)
		wf.Write(b)
		wf.WriteByte('\n')
	}
	wf.Flush()
	ff.Close()

	stats := map[string]interface{}{
		"profile":             *profile,
		"seed":                *seed,
		"ops":                 g.nOps,
		"lines":               g.nLines,
		"calls":               g.nCalls,
		"by_fn":               g.byFn,
		"distinct_nontrivial": len(g.distinct),
		"samples":             g.samples,
		"findings":            len(g.c.Findings()),
		"seconds":             elapsed.Seconds(),
	}
	if g.exh != nil {
		stats["exhaustive"] = *g.exh
	}
	if g.samples == nil {
		stats["samples"] = []string{}
	}
	fs := create(".stats.json")
	b, _ := json.MarshalIndent(stats, "", " ")
	fs.Write(b)
	fs.WriteString("\n")
	fs.Close()

	if !*quiet {
		fmt.Printf("%s seed=%d: %d ops (%d lines, %d calls) in %.2fs = %.0f ops/s, %d findings\n",
			*profile, *seed, g.nOps, g.nLines, g.nCalls, elapsed.Seconds(), float64(g.nOps)/elapsed.Seconds(), len(g.c.Findings()))
	}
}
