package main

import (
	"bytes"
	"encoding/hex"
	"fmt"
	"math/big"
	"strconv"
	"strings"

	"verifharness/oracle"
)

// Pure profiles: activation (C18), parsers (C12), codec (C14), helpers (C20).
//
// Exhaustive families are emitted completely unless -n is small (< smallN): then each family is
// cut to -n ops and "exhaustive": false is recorded. The random part is bounded by -n.

const smallN = 1000

// family runs an exhaustive family of `size` ops produced by emitOne(i); truncated when -n is small.
func (g *gen) family(size int, emitOne func(i int)) {
	n := size
	if g.limit < smallN && size > g.limit {
		n = g.limit
		f := false
		g.exh = &f
	}
	if n == size {
		for i := 0; i < size; i++ {
			emitOne(i)
		}
		return
	}
	// evenly spread sample
	for j := 0; j < n; j++ {
		emitOne(j * size / n)
	}
}

func (g *gen) pureWorld() {
	g.emit("#@ profile " + g.profile)
	g.nsh = 1
	g.gas = g.primeSchedule()
	g.emitf("world 1 0 0 - %s", gasmapString(g.gas))
	g.emit("epoch * 0")
	t := true
	g.exh = &t
}

// randomBudget: the random part runs until nOps reaches start+limit.
func (g *gen) randomPart(f func()) {
	end := g.nOps + g.limit
	for g.nOps < end {
		f()
	}
}

func sx(s string) string { return hx([]byte(s)) }

// ---------------------------------------------------------------------------
// activation
// ---------------------------------------------------------------------------

func (g *gen) runActivation() {
	g.emit("#@ profile " + g.profile)
	t := true
	g.exh = &t
	g.gas = g.primeSchedule()
	epochs := []uint64{0, 1, 2, 3, 4294967295}
	fns := []string{oracle.FnNFTAddURI, oracle.FnNFTUpdate, oracle.FnMultiTransfer, oracle.FnTransfer, oracle.FnSaveKeyValue}
	// enumerate all sequences of length <= 4
	var seqs [][]uint64
	var rec func(prefix []uint64)
	rec = func(prefix []uint64) {
		seqs = append(seqs, append([]uint64{}, prefix...))
		if len(prefix) == 4 {
			return
		}
		for _, e := range epochs {
			rec(append(prefix, e))
		}
	}
	rec(nil)
	type job struct {
		act uint64
		seq []uint64
	}
	var jobs []job
	for _, a := range epochs {
		for _, s := range seqs {
			jobs = append(jobs, job{a, s})
		}
	}
	count := 0
	g.family(len(jobs), func(i int) {
		j := jobs[i]
		if g.limit < smallN && g.nOps >= g.limit {
			return
		}
		nsh := 1 + count%2
		count++
		g.nsh = nsh
		// every third world has a notifier that tells each handler the current epoch the moment it registers (the node's
		// notifier does): the function starts from THAT epoch, compared with ITS activation epoch
		if count%3 == 0 {
			g.emitf("notifier %d", epochs[(count/3)%len(epochs)])
		} else if count%3 == 1 {
			g.emit("notifier off")
		}
		g.emitf("world %d %d %d - %s", nsh, count%2, j.act, gasmapString(g.gas))
		sh := nsh - 1
		if len(j.seq) == 0 {
			g.emitf("registry %d", sh)
			g.emitf("registry %d second", sh)
		}
		for _, f := range fns {
			g.emitf("active %d %s", sh, f)
		}
		// timestamps of the notifications: absent (0), rising, falling, or only on the first one — activation must
		// follow the confirmed EPOCH whatever they are
		tsOf := func(k int) (uint64, bool) {
			switch count % 4 {
			case 1:
				return uint64(1000 + 100*k), true
			case 2:
				return uint64(1000 - 100*k), true
			case 3:
				if k == 0 {
					return 1600000000, true
				}
				return 0, true
			}
			return 0, false
		}
		for k, e := range j.seq {
			sel := "*"
			if k%2 != 0 {
				sel = strconv.Itoa(sh)
			}
			if ts, ok := tsOf(k); ok {
				g.emitf("epoch %s %d %d", sel, e, ts)
			} else {
				g.emitf("epoch %s %d", sel, e)
			}
			for _, f := range fns {
				g.emitf("active %d %s", sh, f)
			}
		}
	})
	g.emitf("registry %d", g.nsh-1)
	g.emitf("registry %d second", g.nsh-1)
	g.emit("active 0 NoSuchFunction")
	g.emit("notifier off")
}

// ---------------------------------------------------------------------------
// parsers
// ---------------------------------------------------------------------------

func allStrings(alphabet []byte, maxLen int) []string {
	out := []string{""}
	prev := []string{""}
	for l := 1; l <= maxLen; l++ {
		var cur []string
		for _, p := range prev {
			for _, c := range alphabet {
				cur = append(cur, p+string(c))
			}
		}
		out = append(out, cur...)
		prev = cur
	}
	return out
}

func (g *gen) randToken() string {
	switch g.r.Intn(10) {
	case 0:
		return ""
	case 1:
		return "0"
	case 2:
		return "0g"
	case 3:
		return "AbCd"
	case 4:
		return strings.Repeat("f", 1+g.r.Intn(9))
	case 5:
		return "0500"
	case 6:
		return "0100"
	default:
		b := make([]byte, g.r.Intn(6))
		g.r.Read(b)
		return hex.EncodeToString(b)
	}
}

func (g *gen) randFnName() []byte {
	switch g.r.Intn(12) {
	case 0:
		return []byte{}
	case 1:
		return []byte("a@b")
	case 2:
		return []byte("@")
	case 3:
		return []byte(oracle.AllFunctions[g.r.Intn(len(oracle.AllFunctions))])
	default:
		n := 1 + g.r.Intn(10)
		b := make([]byte, n)
		for i := range b {
			b[i] = "abcdefghijklmnopqrstuvwxyzABCXYZ0123456789_"[g.r.Intn(43)]
		}
		return b
	}
}

func (g *gen) randArg() []byte {
	switch g.r.Intn(6) {
	case 0:
		return []byte{}
	case 1:
		return []byte{0}
	case 2:
		return []byte{byte(g.r.Intn(256))}
	default:
		b := make([]byte, 1+g.r.Intn(12))
		g.r.Read(b)
		return b
	}
}

// okData extracts <data> from an observation `ok <data>`.
func okData(obs string) (string, bool) {
	f := strings.Split(obs, " ")
	if len(f) == 2 && f[0] == "ok" {
		return f[1], true
	}
	return "", false
}

func (g *gen) payloadToken() string {
	// a valid <T> for enctoken
	nonce := uint64(1 + g.r.Intn(3))
	return fmt.Sprintf("1/%d///%d:%s:%s:%d:%s:%s:%s", 1+g.r.Intn(1000), nonce, sx("n"), hx(userAddr(1, 0)), g.r.Intn(10000), sx("h"), sx("a"), sx("u"))
}

func (g *gen) runParsers() {
	g.pureWorld()
	strs := allStrings([]byte{'a', '@', '0', 'f', 'g', 'A'}, 5)
	for _, op := range []string{"parsecall", "parsedeploy", "parsestorage"} {
		op := op
		g.family(len(strs), func(i int) { g.emitf("%s %s", op, sx(strs[i])) })
	}
	snd, rcv := userAddr(1, 0), userAddr(2, 0)
	tok := []byte("TOK-123456")
	// the builder as an object: reads between the calls, SetLast / Clear after a read, SetLast on an empty builder
	g.emit("buildseq f:" + sx("transfer") + " b:0102 b:03 r l:" + sx("aabb") + " r g r")
	g.emit("buildseq r l:" + sx("00") + " r g f:" + sx("f") + " r c r g")
	g.emit("buildseq f:" + sx("f") + " i:0 i:-1 i:256 t x y:00 s:" + sx("@") + " r c f:" + sx("g") + " r b: r")
	g.randomPart(func() {
		switch g.r.Intn(10) {
		case 0, 1: // random longer strings for the three string parsers
			n := g.r.Intn(8)
			parts := make([]string, n)
			for i := range parts {
				parts[i] = g.randToken()
			}
			s := strings.Join(parts, "@")
			if g.r.Intn(4) == 0 {
				s = "@" + s
			}
			g.emitf("%s %s", []string{"parsecall", "parsedeploy", "parsestorage"}[g.r.Intn(3)], sx(s))
		case 2: // valid deploy data: code@vmtype@metadata@args
			code := hex.EncodeToString(g.randArg())
			if code == "" {
				code = "00"
			}
			s := code + "@" + []string{"0500", "05", "", "0501"}[g.r.Intn(4)] + "@" + []string{"0100", "0502", "0000", "01", "ffff", ""}[g.r.Intn(6)]
			for i := g.r.Intn(3); i > 0; i-- {
				s += "@" + hex.EncodeToString(g.randArg())
			}
			g.emitf("parsedeploy %s", sx(s))
		case 3, 4, 5: // build / enccall then parsecall of the produced data
			op := []string{"build", "enccall"}[g.r.Intn(2)]
			line := op + " " + hx(g.randFnName())
			for i := g.r.Intn(5); i > 0; i-- {
				line += " " + hx(g.randArg())
			}
			if d, ok := okData(g.emit(line)); ok {
				g.emitf("parsecall %s", d)
			}
		case 7: // one builder object through a sequence of calls, reads in between (a read reflects every call before it)
			steps := []string{"f:" + hx(g.randFnName())}
			for i := 2 + g.r.Intn(8); i > 0; i-- {
				switch g.r.Intn(12) {
				case 0, 1, 2:
					steps = append(steps, "b:"+hexField(g.randArg()))
				case 3:
					steps = append(steps, "s:"+hexField(g.randArg()))
				case 4:
					steps = append(steps, fmt.Sprintf("y:%02x", g.r.Intn(256)))
				case 5:
					steps = append(steps, fmt.Sprintf("i:%d", []int64{0, 1, -1, 255, 256, -256, 1<<62 + 3, -(1 << 62)}[g.r.Intn(8)]))
				case 6:
					steps = append(steps, []string{"t", "x"}[g.r.Intn(2)])
				case 7:
					steps = append(steps, "c", "f:"+hx(g.randFnName()))
				case 8, 9:
					steps = append(steps, "r")
				case 10:
					steps = append(steps, "r", "l:"+hexField([]byte(hex.EncodeToString(g.randArg()))))
				default:
					steps = append(steps, "g")
				}
			}
			steps = append(steps, "r")
			g.emit("buildseq " + strings.Join(steps, " "))
		case 6: // buildstorage then parsestorage
			n := g.r.Intn(4)
			items := make([]string, n)
			for i := range items {
				items[i] = hexField(g.randArg()) + ":" + hexField(g.randArg())
			}
			arg := strings.Join(items, ",")
			if n == 0 {
				arg = "-"
			}
			if d, ok := okData(g.emitf("buildstorage %s", arg)); ok {
				g.emitf("parsestorage %s", d)
			}
		default: // parseesdt
			g.emit(g.parseESDTLine(snd, rcv, tok))
		}
	})
}

func hexField(b []byte) string { return hex.EncodeToString(b) }

func (g *gen) parseESDTLine(snd, rcv, tok []byte) string {
	fn := []string{oracle.FnTransfer, oracle.FnNFTTransfer, oracle.FnMultiTransfer, "Other"}[g.r.Intn(4)]
	s, r := snd, rcv
	atSender := g.r.Intn(2) == 0
	if atSender {
		r = snd
	}
	var args [][]byte
	payload := func() []byte {
		switch g.r.Intn(5) {
		case 0:
			return []byte{}
		case 1:
			return []byte{0x08, 0x01}
		}
		obs := g.emit("enctoken " + g.payloadToken())
		f := strings.Split(obs, " ")
		if len(f) == 3 && f[0] == "ok" {
			b, _ := hex.DecodeString(f[1])
			if g.r.Intn(5) == 0 && len(b) > 2 {
				b = b[:g.r.Intn(len(b))] // truncated
			}
			return b
		}
		return []byte{}
	}
	switch fn {
	case oracle.FnTransfer:
		args = [][]byte{tok, g.randArg()}
	case oracle.FnNFTTransfer:
		if atSender {
			args = [][]byte{tok, be(uint64(g.r.Intn(3))), g.randArg(), rcv}
		} else {
			args = [][]byte{tok, be(uint64(g.r.Intn(3))), g.randArg(), payload()}
		}
	default:
		n := 1 + g.r.Intn(3)
		count := be(uint64(n))
		switch g.r.Intn(8) {
		case 0:
			count = be(wrapResidues[g.r.Intn(len(wrapResidues))])
		case 1:
			count = append([]byte{1}, be(wrapResidues[g.r.Intn(len(wrapResidues))])...)
		case 2:
			count = []byte{}
		}
		if atSender {
			args = [][]byte{rcv, count}
		} else {
			args = [][]byte{count}
		}
		for i := 0; i < n; i++ {
			nonce := uint64(g.r.Intn(3))
			nb := be(nonce)
			switch g.r.Intn(4) { // spellings: the sender side itself writes a zero nonce as one zero byte
			case 0:
				if nonce == 0 {
					nb = []byte{0}
				}
			case 1:
				nb = append([]byte{0}, nb...)
			}
			switch {
			case atSender || nonce == 0:
				args = append(args, tok, nb, g.randArg())
			default:
				args = append(args, tok, nb, payload())
			}
		}
	}
	if g.r.Intn(3) == 0 {
		args = append(args, g.randFnName())
		for i := g.r.Intn(3); i > 0; i-- {
			args = append(args, g.randArg())
		}
	}
	if g.r.Intn(10) == 0 && len(args) > 0 {
		args = args[:g.r.Intn(len(args))]
	}
	line := fmt.Sprintf("parseesdt %s %s %s", hx(s), hx(r), sx(fn))
	for _, a := range args {
		line += " " + hx(a)
	}
	return line
}

// ---------------------------------------------------------------------------
// codec
// ---------------------------------------------------------------------------

func pow2(k uint) *big.Int { return new(big.Int).Lsh(big.NewInt(1), k) }

func (g *gen) bigBoundaries() []string {
	var out []string
	add := func(v *big.Int) {
		out = append(out, v.String(), new(big.Int).Neg(v).String())
	}
	out = append(out, "n", "0", "-0")
	one := big.NewInt(1)
	for _, v := range []*big.Int{one, big.NewInt(127), big.NewInt(128), big.NewInt(255), big.NewInt(256),
		new(big.Int).Sub(pow2(63), one), pow2(63), new(big.Int).Add(pow2(63), one),
		new(big.Int).Sub(pow2(64), one), pow2(64), new(big.Int).Add(pow2(64), one),
		// amounts are unbounded: around the 16 / 31 / 32 / 33 / 64-byte magnitudes and far beyond
		new(big.Int).Sub(pow2(128), one), pow2(128), new(big.Int).Sub(pow2(248), one), pow2(248),
		new(big.Int).Sub(pow2(256), one), pow2(256), new(big.Int).Add(pow2(256), one), pow2(264), pow2(512), pow2(520), pow2(2048)} {
		add(v)
	}
	ten19, _ := new(big.Int).SetString("10000000000000000000", 10)
	out = append(out, ten19.String())
	return out
}

func (g *gen) randBigString() string {
	switch g.r.Intn(8) {
	case 0:
		return "n"
	case 1:
		return g.pickS(g.bigBoundaries())
	case 2, 3, 4: // 1..12 bytes magnitude, top bit set
		b := make([]byte, 1+g.r.Intn(12))
		g.r.Read(b)
		b[0] |= 0x80
		v := new(big.Int).SetBytes(b)
		if g.r.Intn(2) == 0 {
			v.Neg(v)
		}
		return v.String()
	case 5: // long magnitudes: 20..200 bytes
		b := make([]byte, 20+g.r.Intn(181))
		g.r.Read(b)
		v := new(big.Int).SetBytes(b)
		if g.r.Intn(2) == 0 {
			v.Neg(v)
		}
		return v.String()
	default:
		b := make([]byte, g.r.Intn(20))
		g.r.Read(b)
		v := new(big.Int).SetBytes(b)
		if g.r.Intn(2) == 0 {
			v.Neg(v)
		}
		return v.String()
	}
}

func (g *gen) pickS(l []string) string { return l[g.r.Intn(len(l))] }

func (g *gen) randField() string {
	switch g.r.Intn(4) {
	case 0:
		return ""
	case 1:
		return "00"
	default:
		b := make([]byte, 1+g.r.Intn(8))
		g.r.Read(b)
		return hex.EncodeToString(b)
	}
}

func (g *gen) randMetaString() string {
	uris := []string{}
	for i := g.r.Intn(4); i > 0; i-- {
		u := g.randField()
		if u == "" {
			u = "-"
		}
		uris = append(uris, u)
	}
	nonce := []uint64{0, 1, 2, 255, 256, 1<<63 - 1, 1 << 63, 1<<64 - 1, uint64(g.r.Int63())}[g.r.Intn(9)]
	roy := []uint64{0, 1, 10000, 10001, 1<<32 - 1, uint64(g.r.Intn(20000))}[g.r.Intn(6)]
	return fmt.Sprintf("%d:%s:%s:%d:%s:%s:%s", nonce, g.randField(), g.randField(), roy, g.randField(), g.randField(), strings.Join(uris, "."))
}

func (g *gen) randTokenString() string {
	typ := []uint64{0, 1, 2, 1<<32 - 1}[g.r.Intn(4)]
	val := g.randBigString()
	props, reserved, meta := g.randField(), g.randField(), "n"
	if g.r.Intn(2) == 0 {
		meta = g.randMetaString()
	}
	switch g.r.Intn(6) {
	case 0: // amount present AND everything serialised after it present
		if val == "n" {
			val = "5"
		}
		props, reserved, meta = "0100", "aabb", g.randMetaString()
	case 1:
		props, reserved, meta = "", "", "n"
	}
	return fmt.Sprintf("%d/%s/%s/%s/%s", typ, val, props, reserved, meta)
}

// encDec emits an enc* op followed by the matching dec* of the produced bytes; returns the bytes.
func (g *gen) encDec(enc, dec, arg string) []byte {
	line := enc
	if arg != "" || enc != "encroles" {
		line += " " + arg
	}
	obs := g.emit(line)
	f := strings.Split(obs, " ")
	if len(f) != 3 || f[0] != "ok" {
		return nil
	}
	g.emitf("%s %s", dec, f[1])
	if f[1] == "-" {
		return []byte{}
	}
	b, _ := hex.DecodeString(f[1])
	return b
}

func (g *gen) mutate(b []byte) []byte {
	b = append([]byte{}, b...)
	switch g.r.Intn(6) {
	case 0: // bit flip
		if len(b) > 0 {
			b[g.r.Intn(len(b))] ^= 1 << uint(g.r.Intn(8))
		}
	case 1: // truncation
		if len(b) > 0 {
			b = b[:g.r.Intn(len(b))]
		}
	case 2: // appended garbage
		extra := make([]byte, 1+g.r.Intn(4))
		g.r.Read(extra)
		b = append(b, extra...)
	case 3: // unknown field with wire type 0..7 (3/4 = groups)
		field := 6 + g.r.Intn(10)
		wt := g.r.Intn(8)
		tag := byte(field<<3 | wt)
		switch wt {
		case 0:
			b = append(b, tag, byte(g.r.Intn(128)))
		case 1:
			b = append(b, append([]byte{tag}, make([]byte, 8)...)...)
		case 2:
			b = append(b, tag, 2, 0xaa, 0xbb)
		case 5:
			b = append(b, append([]byte{tag}, make([]byte, 4)...)...)
		default:
			b = append(b, tag)
			if wt == 3 && g.r.Intn(2) == 0 {
				b = append(b, byte(field<<3|4)) // end group
			}
		}
	case 4: // known field number with another wire type
		b = append(b, byte((1+g.r.Intn(5))<<3|g.r.Intn(8)), byte(g.r.Intn(256)))
	case 5: // huge length prefix
		b = append(b, 0x12, 0xff, 0xff, 0xff, 0xff, 0x0f)
	}
	return b
}

func (g *gen) runCodec() {
	g.pureWorld()
	// bigenc boundaries, each followed by bigdec
	for _, v := range g.bigBoundaries() {
		g.encDec("bigenc", "bigdec", v)
	}
	// bigdec of ALL byte strings of length <= 2
	g.family(1+256+65536, func(i int) {
		switch {
		case i == 0:
			g.emit("bigdec -")
		case i <= 256:
			g.emitf("bigdec %02x", i-1)
		default:
			g.emitf("bigdec %04x", i-257)
		}
	})
	// dec* on all strings of length <= 3 over the boundary bytes
	bb := []byte{0x00, 0x01, 0x08, 0x0a, 0x12, 0x1a, 0x22, 0x2a, 0x7f, 0x80, 0xff}
	small := allStrings(bb, 3)
	for _, op := range []string{"dectoken", "decmeta", "decroles"} {
		op := op
		g.family(len(small), func(i int) { g.emitf("%s %s", op, sx(small[i])) })
	}
	// unknown fields the decoders have to SKIP, at top level, inside an unknown group and inside a nested one: length
	// prefixes and varints at the 31 / 32 / 63 / 64-bit boundaries (an index that wraps around must be an error, never a
	// panic), truncated fixed-width fields, illegal wire types, unbalanced groups - alone and after a valid prefix
	skips := skipStreams()
	for _, op := range []string{"dectoken", "decmeta", "decroles"} {
		op := op
		g.family(len(skips), func(i int) { g.emitf("%s %s", op, hx(skips[i])) })
	}
	var valid [][]byte
	keep := func(b []byte) {
		if b != nil && len(valid) < 200 {
			valid = append(valid, b)
		}
	}
	g.randomPart(func() {
		switch g.r.Intn(10) {
		case 0, 1:
			g.encDec("bigenc", "bigdec", g.randBigString())
		case 2:
			b := make([]byte, 3+g.r.Intn(12))
			g.r.Read(b)
			b[0] &= 3
			g.emitf("bigdec %s", hx(b))
		case 3:
			keep(g.encDec("enctoken", "dectoken", g.randTokenString()))
		case 4:
			// decode, add to the decoded amount in place (as the balance helpers do), encode - then decode an equal
			// encoding again: the codec keeps no state, so zero decodes to zero however often a decoded zero was changed
			ts := []string{"0/0///n", "0/0/0000//n", "1/0///1:6e::0:68::", "0/5///n", "0/n///n"}[g.r.Intn(5)]
			if b := g.encDec("enctoken", "dectoken", ts); b != nil {
				g.emitf("decaddenc %s %d", hx(b), []int64{5, 1, -3, 0, 1 << 40}[g.r.Intn(5)])
				g.encDec("enctoken", "dectoken", ts)
			}
		case 5:
			keep(g.encDec("encmeta", "decmeta", g.randMetaString()))
		case 6:
			n := g.r.Intn(4)
			items := make([]string, n)
			for i := range items {
				switch g.r.Intn(3) {
				case 0:
					items[i] = "-"
				case 1:
					items[i] = sx(oracle.AllRoles[g.r.Intn(7)])
				default:
					items[i] = g.randField()
					if items[i] == "" {
						items[i] = "-"
					}
				}
			}
			keep(g.encDec("encroles", "decroles", strings.Join(items, ",")))
		default: // mutated valid encodings through all three decoders
			if len(valid) == 0 {
				keep(g.encDec("enctoken", "dectoken", g.randTokenString()))
				return
			}
			b := g.mutate(valid[g.r.Intn(len(valid))])
			g.emitf("%s %s", []string{"dectoken", "decmeta", "decroles"}[g.r.Intn(3)], hx(b))
		}
	})
}

func uvarint(n uint64) []byte {
	var b []byte
	for n >= 128 {
		b = append(b, byte(n%128+128))
		n /= 128
	}
	return append(b, byte(n))
}

// skipStreams: see runCodec. Field number 15 (unknown to all three messages): 0x78 varint, 0x79 fixed64, 0x7a
// length-delimited, 0x7b start group, 0x7c end group, 0x7d fixed32, 0x7e / 0x7f illegal wire types.
func skipStreams() [][]byte {
	lens := []uint64{0, 1, 2, 127, 128, 1<<31 - 1, 1 << 31, 1<<32 - 1, 1 << 32, 1<<62 + 1, 1<<63 - 12, 1<<63 - 1, 1 << 63, 1<<64 - 1}
	var payloads [][]byte
	for _, l := range lens {
		p := append([]byte{0x7a}, uvarint(l)...)
		payloads = append(payloads, p, append(append([]byte{}, p...), 0xaa, 0xbb))
		payloads = append(payloads, append([]byte{0x78}, uvarint(l)...))
	}
	payloads = append(payloads,
		[]byte{0x78, 0xff, 0xff, 0xff, 0xff, 0xff, 0xff, 0xff, 0xff, 0xff, 0x01}, // 10-byte varint, top bits set
		[]byte{0x78, 0xff, 0xff, 0xff, 0xff, 0xff, 0xff, 0xff, 0xff, 0xff, 0xff, 0x01}, // 11 bytes: overflow
		[]byte{0x79, 1, 2, 3, 4, 5, 6, 7, 8}, []byte{0x79, 1, 2, 3}, []byte{0x7d, 1, 2, 3, 4}, []byte{0x7d, 1},
		[]byte{0x7e}, []byte{0x7f, 0}, []byte{0x7c}, []byte{0x7b}, []byte{0x7b, 0x7b, 0x7c}, []byte{0x7b, 0x84, 0x01},
		[]byte{0x7a, 0x80}, []byte{0x78, 0x80})
	prefixes := [][]byte{nil, {0x08, 0x01, 0x12, 0x02, 0x00, 0x05}, {0x0a, 0x01, 0x61}}
	var out [][]byte
	for _, pre := range prefixes {
		for _, p := range payloads {
			cat := func(parts ...[]byte) []byte {
				b := append([]byte{}, pre...)
				for _, x := range parts {
					b = append(b, x...)
				}
				return b
			}
			out = append(out, cat(p), cat([]byte{0x7b}, p, []byte{0x7c}), cat([]byte{0x7b}, p),
				cat([]byte{0x7b, 0x73}, p, []byte{0x74, 0x7c}), cat([]byte{0x7b}, p, []byte{0x7c, 0x08, 0x01}))
		}
	}
	return out
}

// ---------------------------------------------------------------------------
// helpers
// ---------------------------------------------------------------------------

func (g *gen) structuredAddr() []byte {
	n := g.r.Intn(41)
	a := make([]byte, n)
	switch g.r.Intn(9) {
	case 0: // all zero
	case 1: // 8 leading zeros
		g.r.Read(a)
		for i := 0; i < 8 && i < n; i++ {
			a[i] = 0
		}
	case 2: // system account prefix lengths 29 / 30 / 31 / 32
		k := 29 + g.r.Intn(4)
		g.r.Read(a)
		for i := 0; i < k && i < n; i++ {
			a[i] = 0xff
		}
	case 3: // metachain patterns
		a = metaContract()
		switch g.r.Intn(4) {
		case 0:
			a[31] = 0xfe
		case 1:
			a[12] = 1
		case 2:
			a = a[:26]
		}
	case 4:
		a = append([]byte{}, oracle.ESDTSC...)
		if g.r.Intn(3) == 0 {
			a[g.r.Intn(32)] ^= 1
		}
	case 5: // zero-prefixed addresses of every length 9..27 (around the 10 / 25 byte thresholds), metachain id at the end
		a = make([]byte, 9+g.r.Intn(19))
		if g.r.Intn(3) > 0 {
			a[len(a)-1] = 0xff
		}
		if g.r.Intn(3) == 0 && len(a) > 12 {
			a[9+g.r.Intn(len(a)-10)] = 1
		}
	case 6: // around 25 / 26
		a = make([]byte, 24+g.r.Intn(4))
		a[len(a)-1] = 0xff
	case 7:
		a = bytes.Repeat([]byte{0xff}, n)
	default:
		g.r.Read(a)
	}
	return a
}

func (g *gen) randOA(first bool) string {
	addr := ""
	if g.r.Intn(3) > 0 {
		addr = "aa"
	}
	nonce := []uint64{0, 1, 5, 5, 9}[g.r.Intn(5)]
	bigs := []string{"n", "0", "7", "-3", "340282366920938463463374607431768211456", "-18446744073709551616", "1"}
	bal, delta := g.pickS(bigs), g.pickS(bigs)
	storage := ""
	switch g.r.Intn(4) {
	case 1:
		storage = "6b31:6f:" + g.pickS([]string{"6431", "6432", ""})
	case 2:
		storage = "6b31:6f:" + g.pickS([]string{"6431", "6432"}) + ",6b32:6f32:" + g.pickS([]string{"aa", "bb"})
	case 3:
		storage = "6b33::" + g.pickS([]string{"cc", "dd"})
	}
	code, meta := g.pickS([]string{"", "", "c0de"}), g.pickS([]string{"", "", "0100"})
	dep := g.pickS([]string{"n", "-", "dd", "n"})
	tr := g.pickS([]string{"", "1", "1.2", "1.2.3", "9", "4.5", "1.2.3.4"})
	gasUsed := []uint64{0, 3, 1<<64 - 1, 10}[g.r.Intn(4)]
	if first && g.r.Intn(3) == 0 {
		return ";0;n;n;;;;n;;0"
	}
	if first && g.r.Intn(3) == 0 {
		delta = "n"
	}
	return fmt.Sprintf("%s;%d;%s;%s;%s;%s;%s;%s;%s;%d", addr, nonce, bal, delta, storage, code, meta, dep, tr, gasUsed)
}

func (g *gen) mergeseqLine() string {
	n := 2 + g.r.Intn(3)
	parts := []string{g.randOA(true)}
	if g.r.Intn(4) == 0 {
		// the important shape: A0 with nil delta, then accounts with non-nil non-zero deltas
		parts = []string{";0;n;n;;;;n;;0", "aa;1;5;7;;;;n;1.2;3", "aa;2;1;-4;6b31:6f:6431;;;n;1.2.3;1", "aa;2;n;340282366920938463463374607431768211456;;c0de;0100;dd;;0"}
		if g.r.Intn(2) == 0 {
			parts = parts[:3]
		}
		return "mergeseq " + strings.Join(parts, " ")
	}
	for i := 1; i < n; i++ {
		parts = append(parts, g.randOA(false))
	}
	return "mergeseq " + strings.Join(parts, " ")
}

func (g *gen) runHelpers() {
	g.pureWorld()
	ops := []string{"codemeta", "usermeta", "globalmeta"}
	// lengths 0, 1, 3, 4
	for _, op := range ops {
		g.emitf("%s -", op)
		for _, b := range []byte{0, 1, 2, 4, 5, 8, 0x80, 0xff} {
			g.emitf("%s %02x", op, b)
			g.emitf("%s %02x0000", op, b)
			g.emitf("%s 00%02x00ff", op, b)
		}
	}
	if g.thorough {
		for _, op := range ops {
			op := op
			g.family(65536, func(i int) { g.emitf("%s %04x", op, i) })
		}
	} else {
		bb := []byte{0x00, 0x01, 0x02, 0x03, 0x04, 0x05, 0x06, 0x07, 0x08, 0x0f, 0x10, 0x7f, 0x80, 0xfe, 0xfd, 0xff}
		for _, op := range ops {
			op := op
			g.family(256, func(i int) { g.emitf("%s %02x%02x", op, bb[i/16], bb[i%16]) })
		}
	}
	// safesub boundaries
	vals := []uint64{0, 1, 2, 1<<63 - 1, 1 << 63, 1<<63 + 1, 1<<64 - 2, 1<<64 - 1}
	for _, a := range vals {
		for _, b := range vals {
			g.emitf("safesub %d %d", a, b)
		}
	}
	g.randomPart(func() {
		switch g.r.Intn(10) {
		case 0, 1, 2:
			g.emit(g.mergeseqLine())
		case 3:
			g.emitf("safesub %d %d", g.r.Uint64()>>uint(g.r.Intn(64)), g.r.Uint64()>>uint(g.r.Intn(64)))
		case 4:
			b := make([]byte, g.r.Intn(5))
			g.r.Read(b)
			g.emitf("%s %s", ops[g.r.Intn(3)], hx(b))
		default:
			g.emitf("addr %s", hx(g.structuredAddr()))
		}
	})
	_ = strconv.Itoa
}

// runMapSpec (C19): sequential histories of the map beneath the container - the sequential specification that the
// linearizability theorem (Props/C19, Proofs/Linearizable.lean) is stated against is the model's `Lin.mapSpec`; here it is
// executed next to the real container.MutexMap on the same operation sequences.
func (g *gen) runMapSpec() {
	g.pureWorld()
	// every sequence of length ≤ 3 over a small alphabet (two keys, two values)
	alpha := []string{"g:1", "g:2", "i:1:7", "i:1:8", "i:2:7", "s:1:9", "s:2:9", "r:1", "r:2", "l", "k"}
	for _, x := range alpha {
		g.emitf("mapseq %s", x)
		for _, y := range alpha {
			g.emitf("mapseq %s %s k", x, y)
			for _, z := range alpha {
				g.emitf("mapseq %s %s %s l k", x, y, z)
			}
		}
	}
	// long random sequences over a few keys
	g.randomPart(func() {
		n := 4 + g.r.Intn(28)
		toks := make([]string, 0, n)
		for j := 0; j < n; j++ {
			k, v := g.r.Intn(5), g.r.Intn(1000)
			switch g.r.Intn(8) {
			case 0, 1:
				toks = append(toks, "g:"+strconv.Itoa(k))
			case 2, 3:
				toks = append(toks, "i:"+strconv.Itoa(k)+":"+strconv.Itoa(v))
			case 4:
				toks = append(toks, "s:"+strconv.Itoa(k)+":"+strconv.Itoa(v))
			case 5:
				toks = append(toks, "r:"+strconv.Itoa(k))
			case 6:
				toks = append(toks, "l")
			default:
				toks = append(toks, "k")
			}
		}
		g.emitf("mapseq %s", strings.Join(toks, " "))
	})
}
