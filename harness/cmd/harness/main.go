// Command harness executes the line protocol of /verif/PROTOCOL.md against the real code.
//
//	harness exec < ops > impl.obs
//	harness oracle < ops > findings.jsonl     (property oracles of package oracle; observations are not printed)
package main

import (
	"bufio"
	"encoding/json"
	"fmt"
	"io"
	"os"
	"runtime/pprof"

	"verifharness/oracle"
	"verifharness/world"
)

func usage() {
	fmt.Fprintln(os.Stderr, "usage: harness exec < ops > observations\n       harness oracle < ops > findings.jsonl")
	os.Exit(2)
}

func main() {
	if len(os.Args) == 2 && os.Args[1] == "oracle" {
		runOracle(os.Stdin, os.Stdout)
		os.Exit(0)
	}
	if len(os.Args) != 2 || os.Args[1] != "exec" {
		usage()
	}
	code := 0
	func() {
		// HARNESS_CPUPROFILE=<file> writes a CPU profile (diagnostics only, no effect on the output).
		if path := os.Getenv("HARNESS_CPUPROFILE"); path != "" {
			f, err := os.Create(path)
			if err == nil {
				defer f.Close()
				if pprof.StartCPUProfile(f) == nil {
					defer pprof.StopCPUProfile()
				}
			}
		}
		code = run(os.Stdin, os.Stdout)
	}()
	os.Exit(code)
}

// execOne never lets a panic escape: World.Exec recovers on its own, this is the second net.
func execOne(w *world.World, line string) (obs string) {
	defer func() {
		if r := recover(); r != nil {
			obs = "panic"
		}
	}()
	return w.Exec(line)
}

func run(in io.Reader, out io.Writer) int {
	r := bufio.NewReaderSize(in, 1<<20)
	bw := bufio.NewWriterSize(out, 1<<16)
	defer bw.Flush()

	w := world.New()
	for {
		line, err := r.ReadString('\n')
		if err != nil && line == "" {
			if err != io.EOF {
				fmt.Fprintln(os.Stderr, "harness: read:", err)
				return 1
			}
			return 0
		}
		obs := execOne(w, line)
		bw.WriteString(obs)
		bw.WriteByte('\n')
		// Every observation line is flushed: nothing is lost if a later op kills the process.
		if ferr := bw.Flush(); ferr != nil {
			fmt.Fprintln(os.Stderr, "harness: write:", ferr)
			return 1
		}
		if err != nil { // last line without newline
			return 0
		}
	}
}

// runOracle feeds the ops through a world and the property checker and prints one JSON object per
// finding. The exit code is 0 whatever is found.
func runOracle(in io.Reader, out io.Writer) {
	r := bufio.NewReaderSize(in, 1<<20)
	bw := bufio.NewWriterSize(out, 1<<16)
	defer bw.Flush()

	s := oracle.NewSession()
	printed := 0
	for {
		line, err := r.ReadString('\n')
		if err != nil && line == "" {
			break
		}
		s.Exec(line)
		fs := s.C.Findings()
		for ; printed < len(fs); printed++ {
			b, _ := json.Marshal(fs[printed])
			bw.Write(b)
			bw.WriteByte('\n')
		}
		if err != nil {
			break
		}
	}
}
