package main

import (
	"bytes"
	"encoding/hex"
	"fmt"
	"math/rand"
	"runtime"
	"sort"
	"strings"
	"sync"
	"sync/atomic"

	vmcommon "github.com/ElrondNetwork/elrond-vm-common"

	"verifharness/world"
)

// Section 3: every execution is charged wholly by ONE gas schedule, while the schedule is being
// flipped and epochs are being confirmed concurrently.

const sectionCharge = "one-schedule-charge"

// ---------------------------------------------------------------------------
// the two schedules
// ---------------------------------------------------------------------------

var baseFields = []string{"StorePerByte", "ReleasePerByte", "DataCopyPerByte", "PersistPerByte", "CompilePerByte", "AoTPreparePerByte"}

var builtInFields = []string{"ChangeOwnerAddress", "ClaimDeveloperRewards", "SaveUserName", "SaveKeyValue", "ESDTTransfer",
	"ESDTBurn", "ESDTLocalMint", "ESDTLocalBurn", "ESDTNFTCreate", "ESDTNFTAddQuantity", "ESDTNFTBurn", "ESDTNFTTransfer",
	"ESDTNFTChangeCreateOwner", "ESDTNFTMultiTransfer", "ESDTNFTAddURI", "ESDTNFTUpdateAttributes"}

func primesFrom(start, n int) []uint64 {
	out := make([]uint64, 0, n)
	for p := start; len(out) < n; p++ {
		isP := p > 1
		for d := 2; d*d <= p; d++ {
			if p%d == 0 {
				isP = false
				break
			}
		}
		if isP {
			out = append(out, uint64(p))
		}
	}
	return out
}

type schedule struct {
	name string
	m    map[string]map[string]uint64
}

func (s *schedule) price(field string) uint64 {
	if v, ok := s.m[vmcommon.BaseOperationCostString][field]; ok {
		return v
	}
	return s.m[vmcommon.BuiltInCostString][field]
}

func (s *schedule) String() string {
	parts := make([]string, 0, 22)
	for _, t := range []string{vmcommon.BaseOperationCostString, vmcommon.BuiltInCostString} {
		fields := make([]string, 0)
		for f := range s.m[t] {
			fields = append(fields, f)
		}
		sort.Strings(fields)
		for _, f := range fields {
			parts = append(parts, fmt.Sprintf("%s.%s=%d", t, f, s.m[t][f]))
		}
	}
	return strings.Join(parts, ",")
}

// makeSchedules: A and B are pairwise distinct primes, B differs from A in EVERY entry. Per-byte
// prices are two digit primes, base costs are five digit primes, so that no mixture of the two
// schedules can collide with a pure charge (verified again per scenario in prepare).
func makeSchedules() (*schedule, *schedule) {
	perByte := primesFrom(11, 2*len(baseFields))
	base := primesFrom(10007, 2*len(builtInFields))
	mk := func(name string, off int) *schedule {
		s := &schedule{name: name, m: map[string]map[string]uint64{
			vmcommon.BaseOperationCostString: {}, vmcommon.BuiltInCostString: {}}}
		for i, f := range baseFields {
			s.m[vmcommon.BaseOperationCostString][f] = perByte[2*i+off]
		}
		for i, f := range builtInFields {
			s.m[vmcommon.BuiltInCostString][f] = base[2*i+off]
		}
		return s
	}
	return mk("A", 0), mk("B", 1)
}

// ---------------------------------------------------------------------------
// scenarios
// ---------------------------------------------------------------------------

type term struct {
	Field string `json:"field"`
	N     uint64 `json:"n"` // multiplier: number of bytes (or number of transfers for a base cost)
}

type scenario struct {
	name  string
	fn    string
	input func(snd []byte) *vmcommon.ContractCallInput
	// dstSide: the private account is passed as acntDst (and acntSnd is nil) instead of as acntSnd
	dstSide bool
	// terms: charge(S) = Σ N·S.price(Field). N of the payload terms is filled from the reference run.
	terms []term
	// payload extracts the number of marshalled bytes from the reference output (nil: N known upfront)
	payload func(out *vmcommon.VMOutput) (uint64, error)

	charge [2]uint64         // pure charges under A, B
	mixed  map[uint64]string // every mixture of A and B prices → description
}

const gasProvided = uint64(1) << 40

var (
	tokFungible = []byte("F-a") // SHORT identifiers: a key prefix with ANY spare capacity of 3 bytes or more is then written concurrently (appended into) by overlapping executions
	tokSFT      = []byte("S-b")
	userKey     = []byte("conc-user-key")
	userValue   = bytes.Repeat([]byte{0x5a}, 23)
	newURI      = []byte("https://example.org/uri/7")
	newAttrs    = []byte("attributes-of-seventeen-bytes-and-more")
)

func senderAddr(i int) []byte {
	a := bytes.Repeat([]byte{0x33}, 32)
	a[0], a[1], a[31] = 0xa0, byte(i), 0x00 // shard 0 of 2, not a contract
	return a
}

var destAddr = func() []byte {
	a := bytes.Repeat([]byte{0x44}, 32)
	a[0], a[31] = 0xd0, 0x01 // shard 1 of 2: cross-shard, never loaded through the adapter
	return a
}()

// remoteContract lives in shard 1: the sender-side forms of ClaimDeveloperRewards and
// ChangeOwnerAddress (acntDst nil) only take the gas out.
var remoteContract = func() []byte {
	a := bytes.Repeat([]byte{0x55}, 32)
	copy(a, []byte{0, 0, 0, 0, 0, 0, 0, 0, 5, 0})
	a[31] = 0x01
	return a
}()

// dnsAddr is registered with the factory as a DNS address (caller of SetUserName).
var dnsAddr = func() []byte {
	a := bytes.Repeat([]byte{0x0d}, 32)
	a[31] = 0x01
	return a
}()

func cp(b []byte) []byte { return append([]byte{}, b...) }

func mkInput(fn string, caller, rcv []byte, args ...[]byte) *vmcommon.ContractCallInput {
	as := make([][]byte, len(args))
	for i, a := range args {
		as[i] = cp(a)
	}
	return &vmcommon.ContractCallInput{
		VMInput: vmcommon.VMInput{
			CallerAddr:  cp(caller),
			Arguments:   as,
			CallValue:   newBig(0),
			CallType:    vmcommon.DirectCall,
			GasProvided: gasProvided,
		},
		RecipientAddr: cp(rcv),
		Function:      fn,
	}
}

// transferPayloads returns the decoded arguments of the single emitted output transfer.
func transferArgs(out *vmcommon.VMOutput) ([][]byte, error) {
	if len(out.OutputAccounts) != 1 {
		return nil, fmt.Errorf("%d output accounts", len(out.OutputAccounts))
	}
	for _, oa := range out.OutputAccounts {
		if len(oa.OutputTransfers) != 1 {
			return nil, fmt.Errorf("%d output transfers", len(oa.OutputTransfers))
		}
		toks := strings.Split(string(oa.OutputTransfers[0].Data), "@")
		args := make([][]byte, 0, len(toks)-1)
		for _, t := range toks[1:] {
			b, err := hex.DecodeString(t)
			if err != nil {
				return nil, err
			}
			args = append(args, b)
		}
		return args, nil
	}
	return nil, nil
}

func scenarios() []*scenario {
	sumLen := func(bs ...[]byte) uint64 {
		n := uint64(0)
		for _, b := range bs {
			n += uint64(len(b))
		}
		return n
	}
	createArgs := [][]byte{tokSFT, {1}, []byte("created-name"), {0x03, 0xe8}, []byte("created-hash-0123456789"), []byte("created-attributes"), []byte("https://example.org/created")}
	return []*scenario{
		{
			name: "nft-transfer-cross-shard", fn: vmcommon.BuiltInFunctionESDTNFTTransfer,
			input: func(s []byte) *vmcommon.ContractCallInput {
				return mkInput(vmcommon.BuiltInFunctionESDTNFTTransfer, s, s, tokSFT, []byte{1}, []byte{1}, destAddr)
			},
			terms: []term{{"ESDTNFTTransfer", 1}, {"DataCopyPerByte", 0}},
			payload: func(out *vmcommon.VMOutput) (uint64, error) {
				args, err := transferArgs(out)
				if err != nil || len(args) != 4 {
					return 0, fmt.Errorf("unexpected hand-over message (%d args, %v)", len(args), err)
				}
				return uint64(len(args[3])), nil
			},
		},
		{
			name: "multi-transfer-2-nfts-cross-shard", fn: vmcommon.BuiltInFunctionMultiESDTNFTTransfer,
			input: func(s []byte) *vmcommon.ContractCallInput {
				return mkInput(vmcommon.BuiltInFunctionMultiESDTNFTTransfer, s, s, destAddr, []byte{2},
					tokSFT, []byte{1}, []byte{1}, tokSFT, []byte{2}, []byte{1})
			},
			terms: []term{{"ESDTNFTMultiTransfer", 2}, {"DataCopyPerByte", 0}},
			payload: func(out *vmcommon.VMOutput) (uint64, error) {
				args, err := transferArgs(out)
				if err != nil || len(args) != 7 {
					return 0, fmt.Errorf("unexpected hand-over message (%d args, %v)", len(args), err)
				}
				return uint64(len(args[3]) + len(args[6])), nil
			},
		},
		{
			name: "nft-create", fn: vmcommon.BuiltInFunctionESDTNFTCreate,
			input: func(s []byte) *vmcommon.ContractCallInput {
				return mkInput(vmcommon.BuiltInFunctionESDTNFTCreate, s, s, createArgs...)
			},
			terms: []term{{"ESDTNFTCreate", 1}, {"StorePerByte", sumLen(createArgs...)}},
		},
		{
			name: "save-key-value-new-key", fn: vmcommon.BuiltInFunctionSaveKeyValue,
			input: func(s []byte) *vmcommon.ContractCallInput {
				return mkInput(vmcommon.BuiltInFunctionSaveKeyValue, s, s, userKey, userValue)
			},
			terms: []term{{"SaveKeyValue", 1}, {"PersistPerByte", sumLen(userKey, userValue)}, {"StorePerByte", sumLen(userValue)}},
		},
		{
			name: "nft-add-uri", fn: vmcommon.BuiltInFunctionESDTNFTAddURI,
			input: func(s []byte) *vmcommon.ContractCallInput {
				return mkInput(vmcommon.BuiltInFunctionESDTNFTAddURI, s, s, tokSFT, []byte{1}, newURI)
			},
			terms: []term{{"ESDTNFTAddURI", 1}, {"StorePerByte", sumLen(newURI)}},
		},
		{
			name: "nft-update-attributes", fn: vmcommon.BuiltInFunctionESDTNFTUpdateAttributes,
			input: func(s []byte) *vmcommon.ContractCallInput {
				return mkInput(vmcommon.BuiltInFunctionESDTNFTUpdateAttributes, s, s, tokSFT, []byte{2}, newAttrs)
			},
			terms: []term{{"ESDTNFTUpdateAttributes", 1}, {"StorePerByte", sumLen(newAttrs)}},
		},
		{
			name: "esdt-transfer-cross-shard", fn: vmcommon.BuiltInFunctionESDTTransfer,
			input: func(s []byte) *vmcommon.ContractCallInput {
				return mkInput(vmcommon.BuiltInFunctionESDTTransfer, s, destAddr, tokFungible, []byte{1})
			},
			terms: []term{{"ESDTTransfer", 1}},
		},
		{
			name: "esdt-local-mint", fn: vmcommon.BuiltInFunctionESDTLocalMint,
			input: func(s []byte) *vmcommon.ContractCallInput {
				return mkInput(vmcommon.BuiltInFunctionESDTLocalMint, s, s, tokFungible, []byte{1})
			},
			terms: []term{{"ESDTLocalMint", 1}},
		},
		// the remaining gas-priced functions have a base cost only: no mixture is possible, but they
		// must still charge A or B and their SetNewGasConfig runs against their execution
		{
			name: "esdt-burn", fn: vmcommon.BuiltInFunctionESDTBurn,
			input: func(s []byte) *vmcommon.ContractCallInput {
				return mkInput(vmcommon.BuiltInFunctionESDTBurn, s, vmcommon.ESDTSCAddress, tokFungible, []byte{1})
			},
			terms: []term{{"ESDTBurn", 1}},
		},
		{
			name: "esdt-local-burn", fn: vmcommon.BuiltInFunctionESDTLocalBurn,
			input: func(s []byte) *vmcommon.ContractCallInput {
				return mkInput(vmcommon.BuiltInFunctionESDTLocalBurn, s, s, tokFungible, []byte{1})
			},
			terms: []term{{"ESDTLocalBurn", 1}},
		},
		{
			name: "nft-add-quantity", fn: vmcommon.BuiltInFunctionESDTNFTAddQuantity,
			input: func(s []byte) *vmcommon.ContractCallInput {
				return mkInput(vmcommon.BuiltInFunctionESDTNFTAddQuantity, s, s, tokSFT, []byte{1}, []byte{5})
			},
			terms: []term{{"ESDTNFTAddQuantity", 1}},
		},
		{
			name: "nft-burn", fn: vmcommon.BuiltInFunctionESDTNFTBurn,
			input: func(s []byte) *vmcommon.ContractCallInput {
				return mkInput(vmcommon.BuiltInFunctionESDTNFTBurn, s, s, tokSFT, []byte{2}, []byte{3})
			},
			terms: []term{{"ESDTNFTBurn", 1}},
		},
		{
			name: "claim-developer-rewards-sender-side", fn: vmcommon.BuiltInFunctionClaimDeveloperRewards,
			input: func(s []byte) *vmcommon.ContractCallInput {
				return mkInput(vmcommon.BuiltInFunctionClaimDeveloperRewards, s, remoteContract)
			},
			terms: []term{{"ClaimDeveloperRewards", 1}},
		},
		{
			name: "change-owner-sender-side", fn: vmcommon.BuiltInFunctionChangeOwnerAddress,
			input: func(s []byte) *vmcommon.ContractCallInput {
				return mkInput(vmcommon.BuiltInFunctionChangeOwnerAddress, s, remoteContract, destAddr)
			},
			terms: []term{{"ChangeOwnerAddress", 1}},
		},
		{
			name: "set-user-name-destination-side", fn: vmcommon.BuiltInFunctionSetUserName, dstSide: true,
			input: func(s []byte) *vmcommon.ContractCallInput {
				return mkInput(vmcommon.BuiltInFunctionSetUserName, dnsAddr, s, []byte("some.user.name"))
			},
			terms: []term{{"SaveUserName", 1}},
		},
	}
}

func (sc *scenario) formula(pick func(i int) *schedule) uint64 {
	c := uint64(0)
	for i, t := range sc.terms {
		c += t.N * pick(i).price(t.Field)
	}
	return c
}

// chargeOf is GasProvided − GasRemaining − Σ gas forwarded with output transfers.
func chargeOf(in *vmcommon.ContractCallInput, out *vmcommon.VMOutput) uint64 {
	c := in.GasProvided - out.GasRemaining
	for _, oa := range out.OutputAccounts {
		for _, t := range oa.OutputTransfers {
			c -= t.GasLimit
		}
	}
	return c
}

// ---------------------------------------------------------------------------
// private sender state
// ---------------------------------------------------------------------------

// sender is one executor's PRIVATE account object plus the snapshot it is reset to after every
// call. Nothing else ever touches the object: the functions receive it as acntSnd and the
// destination is in the other shard, so the shared accounts adapter is only asked (read-only) for
// the system account of the pause lookup.
type sender struct {
	addr []byte
	acc  *world.Account
	snap map[string][]byte
}

func (s *sender) restore() error {
	var dirty []string
	s.acc.ForEach(func(k string, v []byte) {
		if old, ok := s.snap[k]; !ok || !bytes.Equal(old, v) {
			dirty = append(dirty, k)
		}
	})
	for _, k := range dirty {
		if err := s.acc.SaveKeyValue([]byte(k), s.snap[k]); err != nil { // nil value deletes
			return err
		}
	}
	if s.acc.NumKeys() != len(s.snap) {
		for k, v := range s.snap {
			if s.acc.Get(k) == nil {
				if err := s.acc.SaveKeyValue([]byte(k), v); err != nil {
					return err
				}
			}
		}
	}
	return nil
}

func hx(b []byte) string {
	if len(b) == 0 {
		return "-"
	}
	return hex.EncodeToString(b)
}

// ---------------------------------------------------------------------------
// world construction
// ---------------------------------------------------------------------------

const activationEpoch = 7

type chargeWorld struct {
	w         *world.World
	container vmcommon.BuiltInFunctionContainer
	factory   interface {
		GasScheduleChange(map[string]map[string]uint64)
	}
	scheds  [2]*schedule
	scens   []*scenario
	senders []*sender // one per executor, last one = reference
}

func buildChargeWorld(nSenders int) (*chargeWorld, error) {
	a, b := makeSchedules()
	for _, t := range []string{vmcommon.BaseOperationCostString, vmcommon.BuiltInCostString} {
		for f, v := range a.m[t] {
			if b.m[t][f] == v || b.m[t][f] == 0 {
				return nil, fmt.Errorf("schedules A and B agree on %s.%s", t, f)
			}
		}
	}
	cw := &chargeWorld{w: world.New(), scheds: [2]*schedule{a, b}, scens: scenarios()}
	must := func(line, wantPrefix string) error {
		if obs := cw.w.Exec(line); !strings.HasPrefix(obs, wantPrefix) {
			return fmt.Errorf("setup op %q answered %q", line, obs)
		}
		return nil
	}
	if err := must(fmt.Sprintf("world 2 1 %d %s %s", activationEpoch, hx(dnsAddr), a.String()), "world ok"); err != nil {
		return nil, err
	}
	if err := must(fmt.Sprintf("epoch * %d", activationEpoch), "epoch ok"); err != nil {
		return nil, err
	}
	call := func(fn string, caller, rcv []byte, args ...[]byte) error {
		toks := []string{"call", "0", fn, hx(caller), hx(rcv), fmt.Sprint(gasProvided), "0", "0", "0", "0"}
		for _, x := range args {
			toks = append(toks, hx(x))
		}
		return must(strings.Join(toks, " "), "R ok")
	}
	big := append([]byte{1}, bytes.Repeat([]byte{0}, 12)...) // 2^96
	for i := 0; i < nSenders; i++ {
		s := senderAddr(i)
		steps := []error{
			call("ESDTSetRole", vmcommon.ESDTSCAddress, s, tokFungible, []byte(vmcommon.ESDTRoleLocalMint), []byte(vmcommon.ESDTRoleLocalBurn)),
			call("ESDTSetRole", vmcommon.ESDTSCAddress, s, tokSFT, []byte(vmcommon.ESDTRoleNFTCreate), []byte(vmcommon.ESDTRoleNFTAddQuantity),
				[]byte(vmcommon.ESDTRoleNFTAddURI), []byte(vmcommon.ESDTRoleNFTUpdateAttributes), []byte(vmcommon.ESDTRoleNFTBurn)),
			call("ESDTLocalMint", s, s, tokFungible, big),
			call("ESDTNFTCreate", s, s, tokSFT, big, []byte("first"), []byte{0x01, 0xf4}, []byte("hash-of-first"), []byte("attrs-1"), []byte("uri-1a"), []byte("uri-1b")),
			call("ESDTNFTCreate", s, s, tokSFT, big, []byte("second-nft"), []byte{0x07}, []byte("hash-of-second"), []byte("attrs-2-longer"), []byte("uri-2")),
		}
		for _, err := range steps {
			if err != nil {
				return nil, err
			}
		}
	}
	// From here on NO op line is executed any more (a failing call would replace account objects):
	// the account objects are handed to their owners.
	cw.container = cw.w.Container(0)
	cw.factory = cw.w.Factory(0)
	if cw.container == nil || cw.factory == nil {
		return nil, fmt.Errorf("no container / factory for shard 0")
	}
	for i := 0; i < nSenders; i++ {
		acc := cw.w.Account(0, senderAddr(i))
		if acc == nil {
			return nil, fmt.Errorf("sender %d has no account", i)
		}
		cw.senders = append(cw.senders, &sender{addr: senderAddr(i), acc: acc, snap: acc.Storage()})
	}
	if cw.w.Account(0, destAddr) != nil || cw.w.Account(0, vmcommon.SystemAccountAddress) != nil {
		return nil, fmt.Errorf("destination / system account unexpectedly stored on shard 0")
	}
	return cw, nil
}

// exec runs one scenario on a private sender and returns the charge; the sender is reset afterwards.
func (cw *chargeWorld) exec(sc *scenario, s *sender) (uint64, *vmcommon.ContractCallInput, *vmcommon.VMOutput, error) {
	f, err := cw.container.Get(sc.fn)
	if err != nil {
		return 0, nil, nil, err
	}
	if !f.IsActive() {
		return 0, nil, nil, errInactive
	}
	in := sc.input(s.addr)
	var snd, dst vmcommon.UserAccountHandler = s.acc, nil
	if sc.dstSide {
		snd, dst = nil, s.acc
	}
	out, err := f.ProcessBuiltinFunction(snd, dst, in)
	if rerr := s.restore(); rerr != nil && err == nil {
		err = rerr
	}
	if err != nil {
		return 0, in, nil, err
	}
	if out == nil {
		return 0, in, nil, fmt.Errorf("nil output without error")
	}
	return chargeOf(in, out), in, out, nil
}

var errInactive = fmt.Errorf("function inactive although every confirmed epoch is ≥ the activation epoch")

// prepare computes, for every scenario, the pure charges (formula AND quiescent reference run under
// each schedule, which must agree) and the table of every possible A/B mixture.
func (cw *chargeWorld) prepare() error {
	ref := cw.senders[len(cw.senders)-1]
	var refCharge [2][]uint64
	for round := 0; round < 3; round++ { // A, B, A again
		si := round % 2
		cw.factory.GasScheduleChange(cw.scheds[si].m)
		for i, sc := range cw.scens {
			beat()
			c, _, out, err := cw.exec(sc, ref)
			if err != nil {
				return fmt.Errorf("reference run of %s under %s: %v", sc.name, cw.scheds[si].name, err)
			}
			if round == 0 && sc.payload != nil {
				n, err := sc.payload(out)
				if err != nil || n == 0 {
					return fmt.Errorf("reference run of %s: payload %d, %v", sc.name, n, err)
				}
				sc.terms[1].N = n
			}
			if round < 2 {
				refCharge[si] = append(refCharge[si], c)
			} else if refCharge[0][i] != c {
				return fmt.Errorf("%s: charge under A changed from %d to %d after A→B→A", sc.name, refCharge[0][i], c)
			}
		}
	}
	for i, sc := range cw.scens {
		for si := 0; si < 2; si++ {
			s := cw.scheds[si]
			sc.charge[si] = sc.formula(func(int) *schedule { return s })
			if sc.charge[si] != refCharge[si][i] {
				return fmt.Errorf("%s under %s: formula gives %d, quiescent reference run charged %d", sc.name, s.name, sc.charge[si], refCharge[si][i])
			}
		}
		if sc.charge[0] == sc.charge[1] {
			return fmt.Errorf("%s: schedules A and B give the same charge", sc.name)
		}
		sc.mixed = map[uint64]string{}
		for bits := 1; bits < 1<<uint(len(sc.terms))-1; bits++ {
			parts := make([]string, len(sc.terms))
			v := sc.formula(func(i int) *schedule { return cw.scheds[(bits>>uint(i))&1] })
			for i, t := range sc.terms {
				parts[i] = t.Field + " of " + cw.scheds[(bits>>uint(i))&1].name
			}
			if v == sc.charge[0] || v == sc.charge[1] {
				return fmt.Errorf("%s: mixture %v collides with a pure charge (insensitive schedules)", sc.name, parts)
			}
			sc.mixed[v] = strings.Join(parts, " + ")
		}
	}
	return nil
}

// ---------------------------------------------------------------------------
// section 3
// ---------------------------------------------------------------------------

type chargeStats struct {
	bySched [2]int
	other   int
}

func (r *run) sectionCharge() error {
	executors := r.goroutines - 2
	if executors < 2 {
		executors = 2
	}
	cw, err := buildChargeWorld(executors + 1)
	if err != nil {
		return err
	}
	if err := cw.prepare(); err != nil {
		return err
	}
	for _, sc := range cw.scens {
		r.addSample(map[string]interface{}{
			"section": sectionCharge, "scenario": sc.name, "function": sc.fn, "terms": sc.terms,
			"chargeA": sc.charge[0], "chargeB": sc.charge[1], "mixtures": len(sc.mixed),
		})
	}

	flips := r.rounds * r.flipsPerRound
	var stop int32
	var flipsDone int64
	var mu sync.Mutex // findings / totals only, taken outside the measured calls
	stats := make([]chargeStats, len(cw.scens))
	var execErr error
	const maxReported = maxFindingsPerSection
	reported := 0

	var perByte []int
	for i, sc := range cw.scens {
		if len(sc.terms) > 1 {
			perByte = append(perByte, i)
		}
	}

	var wg sync.WaitGroup
	bar := &spinBarrier{n: int32(executors + 2)}

	// executors
	for e := 0; e < executors; e++ {
		wg.Add(1)
		go func(e int) {
			defer wg.Done()
			rng := rand.New(rand.NewSource(roundSeed(r.seed, sectionCharge, "executor", "", e)))
			s := cw.senders[e]
			local := make([]chargeStats, len(cw.scens))
			bar.wait()
			for it := 0; atomic.LoadInt32(&stop) == 0; it++ {
				// two executions out of three go to the scenarios with a per-byte component
				si := perByte[rng.Intn(len(perByte))]
				if rng.Intn(3) == 0 {
					si = rng.Intn(len(cw.scens))
				}
				sc := cw.scens[si]
				c, in, _, err := cw.exec(sc, s)
				if err != nil {
					mu.Lock()
					if err == errInactive {
						if reported < maxReported {
							reported++
							r.addFinding(sectionCharge, sc.name+": "+err.Error(), map[string]interface{}{
								"seed": r.seed, "section": sectionCharge, "scenario": sc.name, "round": it, "executor": e})
						}
					} else if execErr == nil {
						execErr = fmt.Errorf("executor %d, iteration %d, %s: %v", e, it, sc.name, err)
						atomic.StoreInt32(&stop, 1)
					}
					mu.Unlock()
					continue
				}
				switch c {
				case sc.charge[0]:
					local[si].bySched[0]++
				case sc.charge[1]:
					local[si].bySched[1]++
				default:
					local[si].other++
					mu.Lock()
					if reported < maxReported {
						reported++
						how, known := sc.mixed[c]
						if !known {
							how = "not any combination of A and B prices"
						}
						args := make([]string, len(in.Arguments))
						for i, a := range in.Arguments {
							args[i] = hx(a)
						}
						r.addFinding(sectionCharge, fmt.Sprintf("mixed charge: %s charged %d (%s); schedule A charges %d, schedule B charges %d",
							sc.name, c, how, sc.charge[0], sc.charge[1]),
							map[string]interface{}{
								"seed": r.seed, "section": sectionCharge, "scenario": sc.name, "round": it, "executor": e,
								"flips_done": atomic.LoadInt64(&flipsDone),
								"history": map[string]interface{}{
									"function": sc.fn, "caller": hx(in.CallerAddr), "recipient": hx(in.RecipientAddr), "args": args,
									"gas_provided": in.GasProvided, "charged": c, "chargeA": sc.charge[0], "chargeB": sc.charge[1],
									"terms": sc.terms, "decomposition": how,
								},
								"rerun": fmt.Sprintf("bin/conc -seed %d -rounds %d -sections 3", r.seed, r.rounds),
							})
					}
					mu.Unlock()
				}
			}
			mu.Lock()
			for i := range local {
				stats[i].bySched[0] += local[i].bySched[0]
				stats[i].bySched[1] += local[i].bySched[1]
				stats[i].other += local[i].other
			}
			mu.Unlock()
		}(e)
	}

	// schedule flipper: the only caller of GasScheduleChange (the factory itself is single-writer)
	wg.Add(1)
	go func() {
		defer wg.Done()
		rng := rand.New(rand.NewSource(roundSeed(r.seed, sectionCharge, "flipper", "", 0)))
		bar.wait()
		for i := 0; i < flips && atomic.LoadInt32(&stop) == 0; i++ {
			cw.factory.GasScheduleChange(cw.scheds[(i+1)%2].m)
			atomic.AddInt64(&flipsDone, 1)
			beat()
			// mostly back to back; now and then leave the executors alone for a moment
			if rng.Intn(16) == 0 {
				for n := rng.Intn(40); n > 0; n-- {
					runtime.Gosched()
				}
			}
		}
		atomic.StoreInt32(&stop, 1)
	}()

	// epoch notifier: always ≥ activation, so the epoch-gated functions must stay active
	var epochs int64
	wg.Add(1)
	go func() {
		defer wg.Done()
		rng := rand.New(rand.NewSource(roundSeed(r.seed, sectionCharge, "epochs", "", 0)))
		bar.wait()
		for atomic.LoadInt32(&stop) == 0 {
			cw.w.ConfirmEpoch(0, activationEpoch+uint32(rng.Intn(1000)))
			epochs++
			for n := rng.Intn(20); n > 0; n-- {
				runtime.Gosched()
			}
		}
	}()
	wg.Wait()
	if execErr != nil {
		return execErr
	}

	// quiescent epilogue: the last flip must be fully in force for every function (no lost update)
	lastIdx := int(flipsDone % 2) // flip i installs scheds[(i+1)%2]; after n flips: scheds[n%2]
	ref := cw.senders[len(cw.senders)-1]
	for _, sc := range cw.scens {
		c, _, _, err := cw.exec(sc, ref)
		if err != nil {
			return fmt.Errorf("epilogue run of %s: %v", sc.name, err)
		}
		if c != sc.charge[lastIdx] {
			r.addFinding(sectionCharge, fmt.Sprintf("stale schedule: after the last flip to %s, %s charges %d (want %d)",
				cw.scheds[lastIdx].name, sc.name, c, sc.charge[lastIdx]),
				map[string]interface{}{"seed": r.seed, "section": sectionCharge, "scenario": sc.name, "round": int(flipsDone)})
		}
	}

	per := map[string]map[string]int{}
	for i, sc := range cw.scens {
		st := stats[i]
		r.out.ChargesChecked += st.bySched[0] + st.bySched[1] + st.other
		r.out.ChargesBySchedule["A"] += st.bySched[0]
		r.out.ChargesBySchedule["B"] += st.bySched[1]
		r.out.MixedCharges += st.other
		per[sc.name] = map[string]int{"A": st.bySched[0], "B": st.bySched[1], "mixed": st.other}
	}
	r.out.ChargesByScenario = per
	r.out.ScheduleFlips = int(flipsDone)
	r.out.EpochNotifications = int(epochs)
	r.out.Executors = executors
	return nil
}
