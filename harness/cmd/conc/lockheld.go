package main

// Section 4, "lock-held-throughout": ONE execution of a priced function is one critical section of its lock.
//
// Sequential and deterministic (no luck with the scheduler needed): while a scenario executes, the first dependency call
// it makes (a storage write, an account load, a marshal ...) starts a schedule change in another goroutine. The change
// needs the write lock of the executing function object, so it has to WAIT until the execution returns:
//   - if it completes while the execution is still making dependency calls, the execution gave its lock up in the middle
//     (it can then read its base cost under one schedule and a per-byte price under the next one);
//   - if the execution never returns while the change is waiting, the execution tried to take its own read lock again
//     (sync.RWMutex is not re-entrant: a waiting writer blocks new readers) - a deadlock.
// Either is a finding with the scenario as the replay.

import (
	"fmt"
	"sync/atomic"
	"time"

	vmcommon "github.com/ElrondNetwork/elrond-vm-common"
)

const sectionLockHeld = "lock-held-throughout"

// localDest lives on shard 0 (where the scenarios execute): same-shard destinations are loaded through the accounts adapter
var localDest = func() []byte {
	a := make([]byte, 32)
	for i := range a {
		a[i] = 0x55
	}
	a[0], a[31] = 0xe0, 0x00
	return a
}()

func lockHeldExtraScenarios() []*scenario {
	return []*scenario{
		{
			name: "nft-transfer-same-shard", fn: vmcommon.BuiltInFunctionESDTNFTTransfer,
			input: func(s []byte) *vmcommon.ContractCallInput {
				return mkInput(vmcommon.BuiltInFunctionESDTNFTTransfer, s, s, tokSFT, []byte{1}, []byte{1}, localDest)
			},
		},
		{
			name: "multi-transfer-nft-and-fungible-same-shard", fn: vmcommon.BuiltInFunctionMultiESDTNFTTransfer,
			input: func(s []byte) *vmcommon.ContractCallInput {
				return mkInput(vmcommon.BuiltInFunctionMultiESDTNFTTransfer, s, s, localDest, []byte{2},
					tokSFT, []byte{1}, []byte{1}, tokFungible, []byte{}, []byte{5})
			},
		},
		{
			name: "esdt-transfer-same-shard", fn: vmcommon.BuiltInFunctionESDTTransfer,
			input: func(s []byte) *vmcommon.ContractCallInput {
				in := mkInput(vmcommon.BuiltInFunctionESDTTransfer, s, localDest, tokFungible, []byte{5})
				return in
			},
		},
	}
}

func (r *run) sectionLockHeld() error {
	cw, err := buildChargeWorld(1)
	if err != nil {
		return err
	}
	if err := cw.prepare(); err != nil {
		return err
	}
	cw.factory.GasScheduleChange(cw.scheds[0].m)
	s := cw.senders[0]
	scens := append(append([]*scenario{}, cw.scens...), lockHeldExtraScenarios()...)
	reps := 3
	for _, sc := range scens {
		if r.onlyScenario != "" && r.onlyScenario != sc.name {
			continue
		}
		for rep := 0; rep < reps; rep++ {
			beat()
			var started, done, early, hits int32
			probeDone := make(chan struct{})
			cw.w.SetDepHook(func(letter byte) {
				atomic.AddInt32(&hits, 1)
				if atomic.CompareAndSwapInt32(&started, 0, 1) {
					go func() {
						cw.factory.GasScheduleChange(cw.scheds[1].m)
						atomic.StoreInt32(&done, 1)
						close(probeDone)
					}()
					time.Sleep(3 * time.Millisecond) // let the change reach the lock it has to wait for
					return
				}
				if atomic.LoadInt32(&done) == 1 {
					atomic.StoreInt32(&early, 1)
				}
				time.Sleep(500 * time.Microsecond) // a dependency call takes time: a gap in the lock is wide enough to be used
			})
			type result struct {
				err error
			}
			resCh := make(chan result, 1)
			go func() {
				// the same-shard ESDTTransfer scenario passes the destination account too
				var dest []byte
				if sc.name == "esdt-transfer-same-shard" {
					dest = localDest
				}
				resCh <- result{cw.execHooked(sc, s, dest)}
			}()
			var res result
			select {
			case res = <-resCh:
			case <-time.After(20 * time.Second):
				// (the hook stays installed: the stuck execution may still be looking at it)
				r.addFinding(sectionLockHeld, sc.name+": the execution does not return while a schedule change is waiting for the function's lock - the execution takes its own (non re-entrant) read lock again", map[string]interface{}{
					"seed": r.seed, "section": sectionLockHeld, "scenario": sc.name, "repetition": rep,
					"rerun": fmt.Sprintf("bin/conc -seed %d -rounds %d -sections 4 -scenario %s", r.seed, r.rounds, sc.name)})
				return nil // goroutines of this world are stuck: end the section
			}
			cw.w.SetDepHook(nil)
			if atomic.LoadInt32(&started) == 1 {
				select {
				case <-probeDone:
				case <-time.After(20 * time.Second):
					return fmt.Errorf("%s: the schedule change did not finish after the execution returned", sc.name)
				}
			}
			cw.factory.GasScheduleChange(cw.scheds[0].m)
			r.out.LockHeldExecutions++
			r.out.LockHeldDepCalls += int(atomic.LoadInt32(&hits))
			if res.err != nil && res.err != errInactive {
				return fmt.Errorf("%s: %v", sc.name, res.err)
			}
			if atomic.LoadInt32(&early) == 1 {
				r.addFinding(sectionLockHeld, sc.name+": a schedule change that arrived during the execution went THROUGH while the execution was still running - the execution is not one critical section of the function's lock (it may be charged base cost and per-byte price from two different schedules)", map[string]interface{}{
					"seed": r.seed, "section": sectionLockHeld, "scenario": sc.name, "repetition": rep, "dependency_calls": atomic.LoadInt32(&hits),
					"rerun": fmt.Sprintf("bin/conc -seed %d -rounds %d -sections 4 -scenario %s", r.seed, r.rounds, sc.name)})
				break
			}
		}
	}
	return nil
}

// execHooked runs one scenario; the dependency hook is removed the moment the function returns (restoring the sender's
// storage afterwards makes storage writes of its own, outside any execution).
func (cw *chargeWorld) execHooked(sc *scenario, s *sender, dest []byte) error {
	f, err := cw.container.Get(sc.fn)
	if err != nil {
		cw.w.SetDepHook(nil)
		return err
	}
	if !f.IsActive() {
		cw.w.SetDepHook(nil)
		return errInactive
	}
	in := sc.input(s.addr)
	var snd, dst vmcommon.UserAccountHandler = s.acc, nil
	if sc.dstSide {
		snd, dst = nil, s.acc
	}
	if dest != nil {
		dst = cw.w.LoadOrCreateAccount(0, dest)
	}
	_, err = f.ProcessBuiltinFunction(snd, dst, in)
	cw.w.SetDepHook(nil)
	if rerr := s.restore(); rerr != nil && err == nil {
		err = rerr
	}
	return err
}
