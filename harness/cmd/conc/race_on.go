//go:build race
// +build race

package main

const raceEnabled = true
