package main

import (
	"fmt"
	"sort"
	"strings"
	"time"

	"github.com/anishathalye/porcupine"
)

// ---------------------------------------------------------------------------
// operations, results, histories
// ---------------------------------------------------------------------------

const maxKeys = 3

type opKind uint8

const (
	opGet opKind = iota
	opAdd        // MutexMap.Insert / container.Add
	opSet        // MutexMap.Set / container.Replace
	opRemove
	opLen
	opKeys
	opValues // MutexMap only
	numOpKinds
)

var opNames = [...]string{"Get", "Add", "Set", "Remove", "Len", "Keys", "Values"}

// mapOp is the input of one operation. Values are small distinct positive ints (0 = none).
type mapOp struct {
	Kind opKind
	Key  int
	Val  int
}

// mapRes is the observed output. Only the fields that belong to the op kind are meaningful.
//
//	Get:    Ok, Val (Val = -1: an object that was never stored by the program)
//	Add:    Ok
//	Len:    N
//	Keys:   Mask (bit k = key k present), Bad (a key outside the universe / of a wrong type / a duplicate)
//	Values: Vals (sorted), Bad
type mapRes struct {
	Ok   bool
	Val  int
	N    int
	Mask uint
	Vals string
	Bad  bool
}

// record is one completed operation of a history.
type record struct {
	Client int
	Op     mapOp
	Res    mapRes
	Call   int64
	Ret    int64
}

// mapState is the abstract map: value per key, 0 = absent.
type mapState [maxKeys]int

func (s mapState) len() int {
	n := 0
	for _, v := range s {
		if v != 0 {
			n++
		}
	}
	return n
}

func (s mapState) mask() uint {
	m := uint(0)
	for k, v := range s {
		if v != 0 {
			m |= 1 << uint(k)
		}
	}
	return m
}

func (s mapState) vals() string {
	vs := make([]int, 0, maxKeys)
	for _, v := range s {
		if v != 0 {
			vs = append(vs, v)
		}
	}
	return fmtVals(vs)
}

func fmtVals(vs []int) string {
	sort.Ints(vs)
	parts := make([]string, len(vs))
	for i, v := range vs {
		parts[i] = fmt.Sprint(v)
	}
	return strings.Join(parts, ",")
}

// step is the sequential specification: Insert/Add returns false and leaves the value if the key is
// present; Set/Replace overwrites; Remove deletes; Len counts; Keys/Values enumerate.
func step(s mapState, op mapOp, r mapRes) (bool, mapState) {
	switch op.Kind {
	case opGet:
		cur := s[op.Key]
		if cur == 0 {
			return !r.Ok, s
		}
		return r.Ok && r.Val == cur, s
	case opAdd:
		if s[op.Key] != 0 {
			return !r.Ok, s
		}
		if !r.Ok {
			return false, s
		}
		s[op.Key] = op.Val
		return true, s
	case opSet:
		s[op.Key] = op.Val
		return true, s
	case opRemove:
		s[op.Key] = 0
		return true, s
	case opLen:
		return r.N == s.len(), s
	case opKeys:
		return !r.Bad && r.Mask == s.mask(), s
	case opValues:
		return !r.Bad && r.Vals == s.vals(), s
	}
	return false, s
}

func describeOp(op mapOp, r mapRes) string {
	switch op.Kind {
	case opGet:
		if !r.Ok {
			return fmt.Sprintf("Get(k%d)->absent", op.Key)
		}
		return fmt.Sprintf("Get(k%d)->v%d", op.Key, r.Val)
	case opAdd:
		return fmt.Sprintf("Add(k%d,v%d)->%v", op.Key, op.Val, r.Ok)
	case opSet:
		return fmt.Sprintf("Set(k%d,v%d)", op.Key, op.Val)
	case opRemove:
		return fmt.Sprintf("Remove(k%d)", op.Key)
	case opLen:
		return fmt.Sprintf("Len()->%d", r.N)
	case opKeys:
		return fmt.Sprintf("Keys()->%03b%s", r.Mask, badMark(r.Bad))
	case opValues:
		return fmt.Sprintf("Values()->[%s]%s", r.Vals, badMark(r.Bad))
	}
	return "?"
}

func badMark(b bool) string {
	if b {
		return "!foreign"
	}
	return ""
}

// jsonRecord is the replayable rendering of a record.
type jsonRecord struct {
	G    int    `json:"g"`
	Call int64  `json:"call"`
	Ret  int64  `json:"ret"`
	Op   string `json:"op"`
}

func renderHistory(h []record) []jsonRecord {
	out := make([]jsonRecord, len(h))
	for i, r := range h {
		out[i] = jsonRecord{G: r.Client, Call: r.Call, Ret: r.Ret, Op: describeOp(r.Op, r.Res)}
	}
	sort.Slice(out, func(i, j int) bool { return out[i].Call < out[j].Call })
	return out
}

// ---------------------------------------------------------------------------
// checker 1: porcupine
// ---------------------------------------------------------------------------

var mapModel = porcupine.Model{
	Init: func() interface{} { return mapState{} },
	Step: func(state interface{}, input interface{}, output interface{}) (bool, interface{}) {
		ok, ns := step(state.(mapState), input.(mapOp), output.(mapRes))
		return ok, ns
	},
	Equal: func(a, b interface{}) bool { return a.(mapState) == b.(mapState) },
	Hash: func(a interface{}) uint64 {
		s := a.(mapState)
		h := uint64(1469598103934665603)
		for _, v := range s {
			h = (h ^ uint64(v)) * 1099511628211
		}
		return h
	},
	DescribeOperation: func(in, out interface{}) string { return describeOp(in.(mapOp), out.(mapRes)) },
	DescribeState:     func(s interface{}) string { return fmt.Sprint(s.(mapState)) },
}

type verdict int

const (
	linOK verdict = iota
	linIllegal
	linUnknown
)

func (v verdict) String() string { return [...]string{"ok", "illegal", "unknown"}[v] }

func checkPorcupine(h []record, timeout time.Duration) verdict {
	ops := make([]porcupine.Operation, len(h))
	for i, r := range h {
		ops[i] = porcupine.Operation{ClientId: r.Client, Input: r.Op, Call: r.Call, Output: r.Res, Return: r.Ret}
	}
	switch porcupine.CheckOperationsTimeout(mapModel, ops, timeout) {
	case porcupine.Ok:
		return linOK
	case porcupine.Illegal:
		return linIllegal
	}
	return linUnknown
}

// ---------------------------------------------------------------------------
// checker 2: an independent, deliberately naive search (cross-check of checker 1)
// ---------------------------------------------------------------------------

type doneSet [2]uint64

func (d doneSet) has(i int) bool { return d[i>>6]&(1<<uint(i&63)) != 0 }
func (d doneSet) with(i int) doneSet {
	d[i>>6] |= 1 << uint(i&63)
	return d
}

type memoKey struct {
	done doneSet
	st   mapState
}

// checkOwn decides linearizability by depth-first search over "minimal" operations (an operation
// may be linearized next iff no other pending operation returned before it was called), with
// memoisation on (set of linearized operations, abstract state) and two sound reductions:
//
//   - a minimal READ-LIKE operation (Get, Len, Keys, Values, or an Add that reported "present")
//     whose output agrees with the current state is linearized at once, without alternatives: it
//     does not change the state and nothing has to precede it, so any linearization that places it
//     later can be rewritten to place it here;
//   - values are distinct per program, so an overwritten or removed value can never come back: a
//     pending Get that expects a value whose (unique) writer is already linearized while the key
//     holds something else makes the configuration a dead end, as does a Get that expects a value
//     nobody can have written.
//
// budget bounds the visited configurations; linUnknown when exhausted or when the history has more
// than 128 operations.
func checkOwn(h []record, budget int) verdict {
	n := len(h)
	if n > 128 {
		return linUnknown
	}
	idx := make([]int, n)
	for i := range idx {
		idx[i] = i
	}
	sort.Slice(idx, func(a, b int) bool { return h[idx[a]].Call < h[idx[b]].Call })
	rs := make([]record, n)
	for i, j := range idx {
		rs[i] = h[j]
	}
	readLike := make([]bool, n)
	writer := map[int]int{} // value -> index of the operation that can have stored it
	for i, r := range rs {
		switch r.Op.Kind {
		case opGet, opLen, opKeys, opValues:
			readLike[i] = true
		case opAdd:
			if r.Res.Ok {
				writer[r.Op.Val] = i
			} else {
				readLike[i] = true
			}
		case opSet:
			writer[r.Op.Val] = i
		}
	}
	// a Get of a value that no operation on that key can have stored is never satisfiable
	for _, r := range rs {
		if r.Op.Kind == opGet && r.Res.Ok {
			w, ok := writer[r.Res.Val]
			if !ok || rs[w].Op.Key != r.Op.Key {
				return linIllegal
			}
		}
	}
	memo := make(map[memoKey]struct{})
	exhausted := false

	var dfs func(done doneSet, cnt int, st mapState) bool
	dfs = func(done doneSet, cnt int, st mapState) bool {
		for {
			if cnt == n {
				return true
			}
			key := memoKey{done, st}
			if _, seen := memo[key]; seen {
				return false
			}
			if len(memo) >= budget {
				exhausted = true
				return false
			}
			memo[key] = struct{}{}
			// earliest return among the pending operations; dead-end test on pending Gets
			minRet := int64(1<<62 - 1)
			for i := 0; i < n; i++ {
				if done.has(i) {
					continue
				}
				if rs[i].Ret < minRet {
					minRet = rs[i].Ret
				}
				if rs[i].Op.Kind == opGet && rs[i].Res.Ok && st[rs[i].Op.Key] != rs[i].Res.Val && done.has(writer[rs[i].Res.Val]) {
					return false
				}
			}
			// reduction 1: commit a matching minimal read-like operation
			committed := false
			for i := 0; i < n && rs[i].Call <= minRet; i++ {
				if done.has(i) || !readLike[i] {
					continue
				}
				if ok, _ := step(st, rs[i].Op, rs[i].Res); ok {
					done, cnt, committed = done.with(i), cnt+1, true
					break
				}
			}
			if !committed {
				break
			}
		}
		// branch over the minimal state-changing operations
		minRet := int64(1<<62 - 1)
		for i := 0; i < n; i++ {
			if !done.has(i) && rs[i].Ret < minRet {
				minRet = rs[i].Ret
			}
		}
		for i := 0; i < n && rs[i].Call <= minRet; i++ {
			if done.has(i) || readLike[i] {
				continue
			}
			ok, ns := step(st, rs[i].Op, rs[i].Res)
			if !ok {
				continue
			}
			if dfs(done.with(i), cnt+1, ns) {
				return true
			}
			if exhausted {
				return false
			}
		}
		return false
	}
	if dfs(doneSet{}, 0, mapState{}) {
		return linOK
	}
	if exhausted {
		return linUnknown
	}
	return linIllegal
}

// checkNaive is checkOwn without the two reductions (plain search + memoisation). It is only used
// by the self-test and by -paranoid runs to validate the reductions.
func checkNaive(h []record, budget int) verdict {
	n := len(h)
	if n > 128 {
		return linUnknown
	}
	idx := make([]int, n)
	for i := range idx {
		idx[i] = i
	}
	sort.Slice(idx, func(a, b int) bool { return h[idx[a]].Call < h[idx[b]].Call })
	rs := make([]record, n)
	for i, j := range idx {
		rs[i] = h[j]
	}
	memo := make(map[memoKey]struct{})
	exhausted := false
	var dfs func(done doneSet, cnt int, st mapState) bool
	dfs = func(done doneSet, cnt int, st mapState) bool {
		if cnt == n {
			return true
		}
		key := memoKey{done, st}
		if _, seen := memo[key]; seen {
			return false
		}
		if len(memo) >= budget {
			exhausted = true
			return false
		}
		memo[key] = struct{}{}
		minRet := int64(1<<62 - 1)
		for i := 0; i < n; i++ {
			if !done.has(i) && rs[i].Ret < minRet {
				minRet = rs[i].Ret
			}
		}
		for i := 0; i < n && rs[i].Call <= minRet; i++ {
			if done.has(i) {
				continue
			}
			ok, ns := step(st, rs[i].Op, rs[i].Res)
			if !ok {
				continue
			}
			if dfs(done.with(i), cnt+1, ns) {
				return true
			}
			if exhausted {
				return false
			}
		}
		return false
	}
	if dfs(doneSet{}, 0, mapState{}) {
		return linOK
	}
	if exhausted {
		return linUnknown
	}
	return linIllegal
}

// checkResult is the combined verdict of one history.
type checkResult struct {
	v         verdict
	own, porc verdict
	err       error // two definite verdicts disagree: internal error of the harness, never a finding
}

// checkHistory runs the checkers: the own search (primary, fast thanks to the reductions) and
// porcupine as an independent second opinion under a short timeout (confirmPorcupine gives it a
// long one for the histories that are written out as findings). paranoid adds the reduction-free
// search.
func checkHistory(h []record, paranoid bool) checkResult {
	res := checkResult{}
	res.own = checkOwn(h, 400000)
	res.porc = checkPorcupine(h, 100*time.Millisecond)
	if res.own == linUnknown && res.porc == linUnknown {
		res.porc = checkPorcupine(h, 5*time.Second)
	}
	verdicts := []verdict{res.own, res.porc}
	if paranoid {
		verdicts = append(verdicts, checkNaive(h, 400000))
	}
	res.v = linUnknown
	for _, v := range verdicts {
		if v == linUnknown {
			continue
		}
		if res.v != linUnknown && res.v != v {
			res.err = fmt.Errorf("checkers disagree: own=%v porcupine=%v all=%v", res.own, res.porc, verdicts)
			return res
		}
		res.v = v
	}
	return res
}

// selfTestCheckers feeds hand-made histories with known verdicts to both checkers.
func selfTestCheckers() error {
	mk := func(c int, call, ret int64, op mapOp, res mapRes) record {
		return record{Client: c, Op: op, Res: res, Call: call, Ret: ret}
	}
	cases := []struct {
		name string
		h    []record
		want verdict
	}{
		{"two winners", []record{
			mk(0, 1, 3, mapOp{opAdd, 0, 1}, mapRes{Ok: true}),
			mk(1, 2, 4, mapOp{opAdd, 0, 2}, mapRes{Ok: true}),
		}, linIllegal},
		{"one winner, loser reads winner", []record{
			mk(0, 1, 3, mapOp{opAdd, 0, 1}, mapRes{Ok: true}),
			mk(1, 2, 4, mapOp{opAdd, 0, 2}, mapRes{Ok: false}),
			mk(1, 5, 6, mapOp{opGet, 0, 0}, mapRes{Ok: true, Val: 1}),
		}, linOK},
		{"loser's value visible", []record{
			mk(0, 1, 3, mapOp{opAdd, 0, 1}, mapRes{Ok: true}),
			mk(1, 2, 4, mapOp{opAdd, 0, 2}, mapRes{Ok: false}),
			mk(1, 5, 6, mapOp{opGet, 0, 0}, mapRes{Ok: true, Val: 2}),
		}, linIllegal},
		{"stale read after remove returned", []record{
			mk(0, 1, 2, mapOp{opSet, 0, 1}, mapRes{}),
			mk(0, 3, 4, mapOp{opRemove, 0, 0}, mapRes{}),
			mk(1, 5, 6, mapOp{opLen, 0, 0}, mapRes{N: 1}),
		}, linIllegal},
		{"concurrent remove and len", []record{
			mk(0, 1, 2, mapOp{opSet, 0, 1}, mapRes{}),
			mk(0, 3, 6, mapOp{opRemove, 0, 0}, mapRes{}),
			mk(1, 4, 5, mapOp{opLen, 0, 0}, mapRes{N: 1}),
			mk(1, 7, 8, mapOp{opKeys, 0, 0}, mapRes{Mask: 0}),
		}, linOK},
		{"add fails, replace racing on absent key", []record{
			mk(0, 1, 4, mapOp{opAdd, 0, 1}, mapRes{Ok: false}),
			mk(1, 2, 3, mapOp{opSet, 0, 2}, mapRes{}),
			mk(0, 5, 6, mapOp{opGet, 0, 0}, mapRes{Ok: true, Val: 2}),
		}, linOK},
		{"add fails on a never present key", []record{
			mk(0, 1, 2, mapOp{opAdd, 0, 1}, mapRes{Ok: false}),
		}, linIllegal},
	}
	for _, c := range cases {
		if v := checkPorcupine(c.h, 5*time.Second); v != c.want {
			return fmt.Errorf("self-test %q: porcupine says %v, want %v", c.name, v, c.want)
		}
		if v := checkOwn(c.h, 100000); v != c.want {
			return fmt.Errorf("self-test %q: own checker says %v, want %v", c.name, v, c.want)
		}
		if v := checkNaive(c.h, 100000); v != c.want {
			return fmt.Errorf("self-test %q: naive checker says %v, want %v", c.name, v, c.want)
		}
	}
	return nil
}

// confirmPorcupine gives porcupine a long timeout on a history the own search found illegal and
// porcupine could not decide quickly. An "ok" from porcupine is a checker disagreement.
func confirmPorcupine(h []record, res *checkResult) {
	if res.v != linIllegal || res.porc != linUnknown {
		return
	}
	res.porc = checkPorcupine(h, 10*time.Second)
	if res.porc == linOK {
		res.err = fmt.Errorf("checkers disagree: own=%v porcupine=%v", res.own, res.porc)
	}
}
