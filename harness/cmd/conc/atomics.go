package main

import (
	"fmt"
	"math/rand"
	"strings"
	"sync"

	"github.com/ElrondNetwork/elrond-vm-common/atomic"
)

// Section 2: the atomic types lose no update and never expose a value nobody wrote.

const sectionAtomics = "atomics"

func (r *run) atomicsFinding(sub string, round int, rs int64, what string, detail map[string]interface{}) {
	rep := map[string]interface{}{
		"seed": r.seed, "section": sectionAtomics, "scenario": sub, "round": round, "round_seed": rs,
		"rerun": fmt.Sprintf("bin/conc -seed %d -sections 2 -scenario %s -round %d -repeat 200", r.seed, sub, round),
	}
	for k, v := range detail {
		rep[k] = v
	}
	r.addFinding(sectionAtomics, sub+": "+what, rep)
}

// parallel runs n bodies released by a spin barrier and waits for them.
func parallel(n int, body func(g int)) {
	bar := &spinBarrier{n: int32(n)}
	var wg sync.WaitGroup
	for g := 0; g < n; g++ {
		wg.Add(1)
		go func(g int) {
			defer wg.Done()
			bar.wait()
			body(g)
		}(g)
	}
	wg.Wait()
}

// --- Counter -----------------------------------------------------------------

// counterSum: Increment/Decrement/Add/Subtract/Reset mixed. Reset swaps the value out, so
// final + Σ(values returned by Reset) must equal Σ(deltas): nothing lost, nothing counted twice.
// Concurrent Get/GetUint64 must stay inside [Σ negative deltas, Σ positive deltas].
func (r *run) counterSum(round int, rs int64, n int) {
	rng := rand.New(rand.NewSource(rs))
	const m = 200
	type cop struct {
		kind  int // 0 inc 1 dec 2 add 3 sub 4 reset 5 get 6 getuint
		x     int64
		delta int64
	}
	progs := make([][]cop, n)
	var want, lo, hi int64
	withReset := rng.Intn(2) == 0
	for g := range progs {
		progs[g] = make([]cop, m)
		for i := range progs[g] {
			k := rng.Intn(6)
			if k == 4 && !withReset {
				k = 0
			}
			if k == 5 && rng.Intn(2) == 0 {
				k = 6
			}
			c := cop{kind: k}
			switch k {
			case 0:
				c.delta = 1
			case 1:
				c.delta = -1
			case 2:
				c.x = int64(rng.Intn(2001) - 1000)
				c.delta = c.x
			case 3:
				c.x = int64(rng.Intn(2001) - 1000)
				c.delta = -c.x
			}
			want += c.delta
			if c.delta > 0 {
				hi += c.delta
			} else {
				lo += c.delta
			}
			progs[g][i] = c
		}
	}
	var ctr atomic.Counter
	drained := make([]int64, n)
	bad := make([]string, n)
	parallel(n, func(g int) {
		for _, c := range progs[g] {
			switch c.kind {
			case 0:
				ctr.Increment()
			case 1:
				ctr.Decrement()
			case 2:
				ctr.Add(c.x)
			case 3:
				ctr.Subtract(c.x)
			case 4:
				drained[g] += ctr.Reset()
			case 5:
				if v := ctr.Get(); v < lo || v > hi {
					bad[g] = fmt.Sprintf("Get()=%d outside [%d,%d]", v, lo, hi)
				}
			case 6:
				if v := ctr.GetUint64(); hi >= 0 && v > uint64(hi) {
					bad[g] = fmt.Sprintf("GetUint64()=%d above %d", v, hi)
				}
			}
		}
	})
	r.out.AtomicsOps += n * m
	got := ctr.Get()
	for _, d := range drained {
		got += d
	}
	if got != want {
		r.atomicsFinding("counter-sum", round, rs, fmt.Sprintf("lost update: final+drained=%d, sum of deltas=%d", got, want),
			map[string]interface{}{"goroutines": n, "ops_per_goroutine": m, "with_reset": withReset})
	}
	for g, b := range bad {
		if b != "" {
			r.atomicsFinding("counter-sum", round, rs, b, map[string]interface{}{"goroutine": g})
		}
	}
}

// counterTickets: Increment only; the returned values must be exactly 1..n*m, each once.
func (r *run) counterTickets(round int, rs int64, n int) {
	const m = 200
	var ctr atomic.Counter
	if round%2 == 1 {
		ctr.Set(0) // exercise Set on the sequential path
	}
	got := make([][]int64, n)
	parallel(n, func(g int) {
		vs := make([]int64, m)
		for i := range vs {
			vs[i] = ctr.Increment()
		}
		got[g] = vs
	})
	r.out.AtomicsOps += n * m
	seen := make([]bool, n*m+1)
	for g, vs := range got {
		prev := int64(0)
		for _, v := range vs {
			if v < 1 || v > int64(n*m) || seen[v] || v <= prev {
				r.atomicsFinding("counter-tickets", round, rs,
					fmt.Sprintf("Increment returned %d (duplicate, out of range 1..%d, or not increasing for goroutine %d)", v, n*m, g),
					map[string]interface{}{"goroutines": n, "ops_per_goroutine": m})
				return
			}
			seen[v] = true
			prev = v
		}
	}
	if f := ctr.Get(); f != int64(n*m) {
		r.atomicsFinding("counter-tickets", round, rs, fmt.Sprintf("final %d, want %d", f, n*m), nil)
	}
}

// --- Flag --------------------------------------------------------------------

// flagTestAndSet: n goroutines Set() an unset flag; Set reports the previous value, so exactly one
// caller may see "was unset".
func (r *run) flagTestAndSet(round int, rs int64, n int) {
	var f atomic.Flag
	if round%2 == 1 {
		f.Set()
		f.Unset()
	}
	prev := make([]bool, n)
	parallel(n, func(g int) { prev[g] = f.Set() })
	r.out.AtomicsOps += n
	first := 0
	for _, p := range prev {
		if !p {
			first++
		}
	}
	if first != 1 || !f.IsSet() {
		r.atomicsFinding("flag-test-and-set", round, rs,
			fmt.Sprintf("%d of %d concurrent Set() calls saw the flag unset (want 1); final IsSet=%v", first, n, f.IsSet()),
			map[string]interface{}{"goroutines": n, "previous": prev})
	}
}

// flagMix: random Set/Unset/Toggle/IsSet. In any sequentially consistent execution the final state
// is the last write of SOME goroutine (or the initial state when nobody writes); when all last
// writes agree the final state is determined.
func (r *run) flagMix(round int, rs int64, n int) {
	rng := rand.New(rand.NewSource(rs))
	const m = 50
	progs := make([][]int, n) // 0 Set 1 Unset 2 Toggle(true) 3 Toggle(false) 4 IsSet
	possible := map[bool]bool{}
	anyWrite := false
	// every other round ends each goroutine with the same write, so the expectation is determined
	forced := -1
	if round%2 == 0 {
		forced = rng.Intn(4)
	}
	for g := range progs {
		progs[g] = make([]int, m)
		last := -1
		for i := range progs[g] {
			progs[g][i] = rng.Intn(5)
			if i == m-1 && forced >= 0 {
				progs[g][i] = forced
			}
			if progs[g][i] != 4 {
				last = progs[g][i]
			}
		}
		if last >= 0 {
			anyWrite = true
			possible[last == 0 || last == 2] = true
		}
	}
	if !anyWrite {
		possible[false] = true
	}
	var f atomic.Flag
	parallel(n, func(g int) {
		for _, o := range progs[g] {
			switch o {
			case 0:
				f.Set()
			case 1:
				f.Unset()
			case 2:
				f.Toggle(true)
			case 3:
				f.Toggle(false)
			case 4:
				f.IsSet()
			}
		}
	})
	r.out.AtomicsOps += n * m
	if len(possible) == 1 {
		r.out.FlagDetermined++
	}
	if final := f.IsSet(); !possible[final] {
		r.atomicsFinding("flag-mix", round, rs,
			fmt.Sprintf("final IsSet=%v but every goroutine's last write sets %v", final, !final),
			map[string]interface{}{"goroutines": n, "programs": progs})
	}
}

// --- registers: Int64, Uint32, Uint64, String ---------------------------------

// register abstracts the four Set/Get types over an (writer, seq) encoding. decode returns ok=false
// for a value nobody wrote (including torn values); (0,0) is the initial value.
type register struct {
	name   string
	set    func(w, seq int)
	get    func() (w, seq int, ok bool, raw string)
	maxSeq int
}

func pack(w, seq int) uint64 { return uint64(w+1)<<20 | uint64(seq) } // < 2^25

func unpack(x uint64) (int, int) { return int(x>>20) - 1, int(x & (1<<20 - 1)) }

func mkString(w, seq int) string {
	return fmt.Sprintf("w%d:%d:%s", w, seq, strings.Repeat(string(rune('a'+w%26)), seq%9))
}

func newRegisters() []func() *register {
	return []func() *register{
		func() *register {
			var v atomic.Int64
			return &register{name: "int64",
				set: func(w, seq int) {
					x := int64(pack(w, seq)<<32 | pack(w, seq))
					if w%2 == 1 {
						x = -x
					}
					v.Set(x)
				},
				get: func() (int, int, bool, string) {
					x := v.Get()
					raw := fmt.Sprint(x)
					if x == 0 {
						return 0, 0, true, raw
					}
					neg := x < 0
					if neg {
						x = -x
					}
					hi, lo := uint64(x)>>32, uint64(x)&0xffffffff
					w, seq := unpack(lo)
					return w, seq, hi == lo && w >= 0 && (w%2 == 1) == neg, raw
				}}
		},
		func() *register {
			var v atomic.Uint64
			return &register{name: "uint64",
				set: func(w, seq int) { v.Set(pack(w, seq)<<32 | pack(w, seq)) },
				get: func() (int, int, bool, string) {
					x := v.Get()
					raw := fmt.Sprint(x)
					if x == 0 {
						return 0, 0, true, raw
					}
					hi, lo := x>>32, x&0xffffffff
					w, seq := unpack(lo)
					return w, seq, hi == lo && w >= 0, raw
				}}
		},
		func() *register {
			var v atomic.Uint32
			return &register{name: "uint32",
				set: func(w, seq int) { v.Set(uint32(pack(w, seq))) },
				get: func() (int, int, bool, string) {
					x := v.Get()
					raw := fmt.Sprint(x)
					if x == 0 {
						return 0, 0, true, raw
					}
					w, seq := unpack(uint64(x))
					return w, seq, w >= 0, raw
				}}
		},
		func() *register {
			var v atomic.String
			return &register{name: "string",
				set: func(w, seq int) { v.Set(mkString(w, seq)) },
				get: func() (int, int, bool, string) {
					s := v.Get()
					if s == "" {
						return 0, 0, true, s
					}
					var w, seq int
					if _, err := fmt.Sscanf(s, "w%d:%d:", &w, &seq); err != nil {
						return 0, 0, false, s
					}
					return w, seq, w >= 0 && seq >= 0 && s == mkString(w, seq), s
				}}
		},
	}
}

// registerRound: writers Set (w,1..m); readers Get. Every Get must return the initial value or a
// value some writer did Set (with seq ≤ m); a reader may never see one writer's values go backwards
// (an overwritten value cannot come back); the final value is some writer's LAST Set.
func (r *run) registerRound(mk func() *register, round int, rs int64, n int) {
	rng := rand.New(rand.NewSource(rs))
	const m = 150
	reg := mk()
	sub := "register-" + reg.name
	writers := 1 + rng.Intn(n-1) // at least one writer and one reader
	if round%3 == 0 {
		writers = n / 2
		if writers == 0 {
			writers = 1
		}
	}
	bad := make([]string, n)
	parallel(n, func(g int) {
		if g < writers {
			for seq := 1; seq <= m; seq++ {
				reg.set(g, seq)
				if seq%8 == 0 { // writers read as well
					if _, _, ok, raw := reg.get(); !ok {
						bad[g] = "Get returned a value nobody Set: " + raw
					}
				}
			}
			return
		}
		lastSeen := make([]int, writers)
		for i := 0; i < m; i++ {
			w, seq, ok, raw := reg.get()
			switch {
			case !ok || w >= writers || seq > m:
				bad[g] = "Get returned a value nobody Set: " + raw
			case seq == 0:
				// initial value: legal only before any write was observed
				for _, s := range lastSeen {
					if s != 0 {
						bad[g] = "Get returned the initial value after a written value"
					}
				}
			case seq < lastSeen[w]:
				bad[g] = fmt.Sprintf("writer %d: value %d observed after value %d (overwritten value came back)", w, seq, lastSeen[w])
			default:
				lastSeen[w] = seq
			}
		}
	})
	r.out.AtomicsOps += n * m
	for g, b := range bad {
		if b != "" {
			r.atomicsFinding(sub, round, rs, b, map[string]interface{}{"goroutine": g, "writers": writers, "goroutines": n})
		}
	}
	w, seq, ok, raw := reg.get()
	if !ok || w >= writers || seq != m {
		r.atomicsFinding(sub, round, rs, "final value "+raw+" is not the last Set of any writer",
			map[string]interface{}{"writers": writers, "goroutines": n})
	}
}

// --- section -----------------------------------------------------------------

func (r *run) sectionAtomics() error {
	type sub struct {
		name string
		f    func(round int, rs int64, n int)
	}
	subs := []sub{
		{"counter-sum", r.counterSum},
		{"counter-tickets", r.counterTickets},
		{"flag-test-and-set", r.flagTestAndSet},
		{"flag-mix", r.flagMix},
	}
	for _, mk := range newRegisters() {
		mk := mk
		subs = append(subs, sub{"register-" + mk().name, func(round int, rs int64, n int) { r.registerRound(mk, round, rs, n) }})
	}
	maxG := r.goroutines
	if maxG > 16 {
		maxG = 16
	}
	if maxG < 2 {
		maxG = 2
	}
	for _, s := range subs {
		if r.onlyScenario != "" && r.onlyScenario != s.name {
			continue
		}
		first, last := 0, r.rounds
		if r.onlyRound >= 0 {
			first, last = r.onlyRound, r.onlyRound+1
		}
		for round := first; round < last; round++ {
			for rep := 0; rep < r.repeat; rep++ {
				rs := roundSeed(r.seed, sectionAtomics, "", s.name, round)
				n := 2 + int(uint64(rs)%uint64(maxG-1))
				s.f(round, rs, n)
				beat()
				r.out.AtomicsRounds++
			}
		}
	}
	return nil
}
