package main

import (
	"encoding/json"
	"errors"
	"fmt"
	"math/rand"
	"runtime"
	"sync"
	"sync/atomic"
	"time"

	vmcommon "github.com/ElrondNetwork/elrond-vm-common"
	"github.com/ElrondNetwork/elrond-vm-common/builtInFunctions"
	"github.com/ElrondNetwork/elrond-vm-common/container"
)

// ---------------------------------------------------------------------------
// the two objects under test behind one adapter
// ---------------------------------------------------------------------------

type mapUnderTest interface {
	do(op mapOp) mapRes
	supports(k opKind) bool
}

var keyNames = [maxKeys]string{"k0", "k1", "k2"}

func keyIndex(s string) int {
	for i, n := range keyNames {
		if n == s {
			return i
		}
	}
	return -1
}

// --- container.MutexMap -----------------------------------------------------

type mutexMapUT struct{ m *container.MutexMap }

func newMutexMapUT() mapUnderTest { return &mutexMapUT{m: container.NewMutexMap()} }

func (u *mutexMapUT) supports(opKind) bool { return true }

func (u *mutexMapUT) do(op mapOp) mapRes {
	switch op.Kind {
	case opGet:
		v, ok := u.m.Get(keyNames[op.Key])
		if !ok {
			return mapRes{}
		}
		iv, isInt := v.(int)
		if !isInt {
			iv = -1
		}
		return mapRes{Ok: true, Val: iv}
	case opAdd:
		return mapRes{Ok: u.m.Insert(keyNames[op.Key], op.Val)}
	case opSet:
		u.m.Set(keyNames[op.Key], op.Val)
	case opRemove:
		u.m.Remove(keyNames[op.Key])
	case opLen:
		return mapRes{N: u.m.Len()}
	case opKeys:
		r := mapRes{}
		for _, k := range u.m.Keys() {
			s, _ := k.(string)
			i := keyIndex(s)
			if i < 0 || r.Mask&(1<<uint(i)) != 0 {
				r.Bad = true
				continue
			}
			r.Mask |= 1 << uint(i)
		}
		return r
	case opValues:
		r := mapRes{}
		vals := u.m.Values()
		vs := make([]int, 0, len(vals))
		for _, v := range vals {
			iv, isInt := v.(int)
			if !isInt {
				r.Bad = true
				continue
			}
			vs = append(vs, iv)
		}
		r.Vals = fmtVals(vs)
		return r
	}
	return mapRes{}
}

// --- builtInFunctions.functionContainer -------------------------------------

// dummyFn is a distinct, non-nil BuiltinFunction object per value.
type dummyFn struct{ id int }

func (d *dummyFn) ProcessBuiltinFunction(_, _ vmcommon.UserAccountHandler, _ *vmcommon.ContractCallInput) (*vmcommon.VMOutput, error) {
	return &vmcommon.VMOutput{}, nil
}
func (d *dummyFn) SetNewGasConfig(*vmcommon.GasCost) {}
func (d *dummyFn) IsActive() bool                    { return true }
func (d *dummyFn) IsInterfaceNil() bool              { return d == nil }

// the value objects are created once and only read afterwards
var dummyFns = func() []*dummyFn {
	fs := make([]*dummyFn, 256)
	for i := range fs {
		fs[i] = &dummyFn{id: i}
	}
	return fs
}()

type fnContainerUT struct {
	c vmcommon.BuiltInFunctionContainer
}

func newFnContainerUT() mapUnderTest {
	return &fnContainerUT{c: builtInFunctions.NewBuiltInFunctionContainer()}
}

func (u *fnContainerUT) supports(k opKind) bool { return k != opValues }

func (u *fnContainerUT) do(op mapOp) mapRes {
	switch op.Kind {
	case opGet:
		f, err := u.c.Get(keyNames[op.Key])
		if err != nil {
			// the only legal error is "invalid key"; anything else is reported as a foreign value
			if !errors.Is(err, builtInFunctions.ErrInvalidContainerKey) {
				return mapRes{Ok: true, Val: -1}
			}
			return mapRes{}
		}
		d, isDummy := f.(*dummyFn)
		if !isDummy || d == nil || d.id <= 0 || d.id >= len(dummyFns) || dummyFns[d.id] != d {
			return mapRes{Ok: true, Val: -1}
		}
		return mapRes{Ok: true, Val: d.id}
	case opAdd:
		return mapRes{Ok: u.c.Add(keyNames[op.Key], dummyFns[op.Val]) == nil}
	case opSet:
		if err := u.c.Replace(keyNames[op.Key], dummyFns[op.Val]); err != nil {
			panic("Replace of a valid element failed: " + err.Error())
		}
	case opRemove:
		u.c.Remove(keyNames[op.Key])
	case opLen:
		return mapRes{N: u.c.Len()}
	case opKeys:
		r := mapRes{}
		for s := range u.c.Keys() {
			i := keyIndex(s)
			if i < 0 {
				r.Bad = true
				continue
			}
			r.Mask |= 1 << uint(i)
		}
		return r
	}
	return mapRes{}
}

// ---------------------------------------------------------------------------
// programs
// ---------------------------------------------------------------------------

// program is what one round executes: prefix (sequential, before the barrier), one op list per
// goroutine (released together), suffix (sequential, after all goroutines finished).
type program struct {
	Prefix []mapOp
	Par    [][]mapOp
	Suffix []mapOp
}

func (p *program) numOps() int {
	n := len(p.Prefix) + len(p.Suffix)
	for _, g := range p.Par {
		n += len(g)
	}
	return n
}

type valAlloc struct{ next int }

func (a *valAlloc) fresh() int {
	a.next++
	if a.next >= len(dummyFns) {
		panic("value universe exhausted")
	}
	return a.next
}

var scenarioNames = []string{"same-key-add", "add-vs-replace", "remove-vs-readers", "random"}

func suffixOps(nkeys int, ut mapUnderTest) []mapOp {
	ops := make([]mapOp, 0, nkeys+3)
	for k := 0; k < nkeys; k++ {
		ops = append(ops, mapOp{Kind: opGet, Key: k})
	}
	ops = append(ops, mapOp{Kind: opLen}, mapOp{Kind: opKeys})
	if ut.supports(opValues) {
		ops = append(ops, mapOp{Kind: opValues})
	}
	return ops
}

func randomReader(rng *rand.Rand, nkeys int, ut mapUnderTest) mapOp {
	for {
		k := []opKind{opGet, opGet, opLen, opKeys, opValues}[rng.Intn(5)]
		if ut.supports(k) {
			return mapOp{Kind: k, Key: rng.Intn(nkeys)}
		}
	}
}

// genProgram is a pure function of (rng state, scenario, maxG): re-running with the same round
// seed regenerates the same program.
func genProgram(rng *rand.Rand, scenario string, maxG int, ut mapUnderTest) *program {
	va := &valAlloc{}
	p := &program{}
	g := 2 + rng.Intn(maxG-1) // 2..maxG
	switch scenario {
	case "same-key-add":
		// k goroutines all Add the SAME absent key with distinct values, then look at it.
		nkeys := 1 + rng.Intn(2)
		p.Par = make([][]mapOp, g)
		for i := range p.Par {
			ops := []mapOp{{Kind: opAdd, Key: 0, Val: va.fresh()}}
			for n := rng.Intn(3); n > 0; n-- {
				if rng.Intn(3) == 0 {
					ops = append(ops, randomReader(rng, nkeys, ut))
				} else {
					ops = append(ops, mapOp{Kind: opGet, Key: 0})
				}
			}
			p.Par[i] = ops
		}
		p.Suffix = suffixOps(nkeys, ut)
	case "add-vs-replace":
		// Add racing Replace on an absent key; everybody reads it afterwards.
		p.Par = make([][]mapOp, g)
		for i := range p.Par {
			kind := opAdd
			if i == 1 || (i > 1 && rng.Intn(2) == 0) {
				kind = opSet
			}
			ops := []mapOp{{Kind: kind, Key: 0, Val: va.fresh()}, {Kind: opGet, Key: 0}}
			if rng.Intn(3) == 0 {
				k2 := opAdd
				if rng.Intn(2) == 0 {
					k2 = opSet
				}
				ops = append(ops, mapOp{Kind: k2, Key: 0, Val: va.fresh()}, mapOp{Kind: opGet, Key: 0})
			}
			p.Par[i] = ops
		}
		p.Suffix = suffixOps(1, ut)
	case "remove-vs-readers":
		// Remove racing Get/Len/Keys on a pre-populated map (occasionally a re-Add).
		nkeys := 1 + rng.Intn(maxKeys)
		for k := 0; k < nkeys; k++ {
			p.Prefix = append(p.Prefix, mapOp{Kind: opSet, Key: k, Val: va.fresh()})
		}
		p.Par = make([][]mapOp, g)
		for i := range p.Par {
			n := 3 + rng.Intn(4)
			ops := make([]mapOp, 0, n)
			remover := i == 0 || rng.Intn(3) == 0
			for j := 0; j < n; j++ {
				switch {
				case remover && (j == 0 || rng.Intn(3) == 0):
					ops = append(ops, mapOp{Kind: opRemove, Key: rng.Intn(nkeys)})
				case remover && rng.Intn(5) == 0:
					ops = append(ops, mapOp{Kind: opAdd, Key: rng.Intn(nkeys), Val: va.fresh()})
				default:
					ops = append(ops, randomReader(rng, nkeys, ut))
				}
			}
			p.Par[i] = ops
		}
		p.Suffix = suffixOps(nkeys, ut)
	default: // random
		nkeys := 1 + rng.Intn(maxKeys)
		if rng.Intn(2) == 0 {
			p.Prefix = append(p.Prefix, mapOp{Kind: opAdd, Key: rng.Intn(nkeys), Val: va.fresh()})
		}
		p.Par = make([][]mapOp, g)
		for i := range p.Par {
			n := 3 + rng.Intn(4)
			ops := make([]mapOp, 0, n)
			for j := 0; j < n; j++ {
				var k opKind
				for {
					k = opKind(rng.Intn(int(numOpKinds)))
					if ut.supports(k) {
						break
					}
				}
				op := mapOp{Kind: k, Key: rng.Intn(nkeys)}
				if k == opAdd || k == opSet {
					op.Val = va.fresh()
				}
				ops = append(ops, op)
			}
			p.Par[i] = ops
		}
		p.Suffix = suffixOps(nkeys, ut)
	}
	return p
}

// ---------------------------------------------------------------------------
// execution with call/return stamps
// ---------------------------------------------------------------------------

// spinBarrier releases n goroutines as simultaneously as the scheduler permits.
type spinBarrier struct {
	n       int32
	arrived int32
}

func (b *spinBarrier) wait() {
	atomic.AddInt32(&b.arrived, 1)
	for i := 0; atomic.LoadInt32(&b.arrived) < b.n; i++ {
		if i > 2000 {
			runtime.Gosched()
		}
	}
}

// runProgram executes p on a fresh object and returns the recorded history. The stamps come from
// one monotonic counter (sync/atomic), so "a returned before b was called" is exactly
// Ret(a) < Call(b). The sequential client has id len(p.Par).
func runProgram(p *program, ut mapUnderTest) []record {
	var clock int64
	seqClient := len(p.Par)
	h := make([]record, 0, p.numOps())
	seq := func(ops []mapOp) {
		for _, op := range ops {
			c := atomic.AddInt64(&clock, 1)
			res := ut.do(op)
			r := atomic.AddInt64(&clock, 1)
			h = append(h, record{Client: seqClient, Op: op, Res: res, Call: c, Ret: r})
		}
	}
	seq(p.Prefix)

	per := make([][]record, len(p.Par))
	bar := &spinBarrier{n: int32(len(p.Par))}
	var wg sync.WaitGroup
	for g := range p.Par {
		wg.Add(1)
		go func(g int) {
			defer wg.Done()
			ops := p.Par[g]
			recs := make([]record, len(ops))
			bar.wait()
			for i, op := range ops {
				c := atomic.AddInt64(&clock, 1)
				res := ut.do(op)
				r := atomic.AddInt64(&clock, 1)
				recs[i] = record{Client: g, Op: op, Res: res, Call: c, Ret: r}
			}
			per[g] = recs
		}(g)
	}
	wg.Wait()
	for _, recs := range per {
		h = append(h, recs...)
	}
	seq(p.Suffix)
	return h
}

// hammer executes the parallel part WITHOUT stamps: the stamp counter is itself a synchronisation
// point that orders the goroutines in the eyes of the race detector, so these rounds exist only to
// give the race detector unordered accesses to look at.
func hammer(p *program, ut mapUnderTest, reps int) int {
	for _, op := range p.Prefix {
		ut.do(op)
	}
	bar := &spinBarrier{n: int32(len(p.Par))}
	var wg sync.WaitGroup
	n := 0
	for g := range p.Par {
		n += len(p.Par[g]) * reps
		wg.Add(1)
		go func(ops []mapOp) {
			defer wg.Done()
			bar.wait()
			for r := 0; r < reps; r++ {
				for _, op := range ops {
					ut.do(op)
				}
			}
		}(p.Par[g])
	}
	wg.Wait()
	return n
}

// ---------------------------------------------------------------------------
// section 1
// ---------------------------------------------------------------------------

// roundSeed derives the seed of one round from the run seed, so that a single round can be
// regenerated without running its predecessors.
func roundSeed(seed int64, section, object, scenario string, round int) int64 {
	h := uint64(1469598103934665603)
	mix := func(s string) {
		for i := 0; i < len(s); i++ {
			h = (h ^ uint64(s[i])) * 1099511628211
		}
		h = (h ^ 0xff) * 1099511628211
	}
	mix(fmt.Sprint(seed))
	mix(section)
	mix(object)
	mix(scenario)
	mix(fmt.Sprint(round))
	return int64(h >> 1)
}

type objectUT struct {
	name string
	mk   func() mapUnderTest
}

var objects = []objectUT{
	{"MutexMap", newMutexMapUT},
	{"functionContainer", newFnContainerUT},
}

// directChecks are scenario specific oracles that need no search (they back the checker up and
// give a sharper message).
func directChecks(scenario string, p *program, h []record) string {
	if scenario != "same-key-add" {
		return ""
	}
	wins, winner := 0, 0
	for _, r := range h {
		if r.Op.Kind == opAdd && r.Op.Key == 0 && r.Res.Ok {
			wins++
			winner = r.Op.Val
		}
	}
	if wins != 1 {
		return fmt.Sprintf("%d of %d concurrent Add/Insert calls on the same absent key succeeded (want exactly 1)", wins, len(p.Par))
	}
	for _, r := range h {
		if r.Client == len(p.Par) && r.Op.Kind == opGet && r.Op.Key == 0 {
			if !r.Res.Ok || r.Res.Val != winner {
				return fmt.Sprintf("after the race Get returns %s but the only successful Add stored v%d", describeOp(r.Op, r.Res), winner)
			}
		}
	}
	return ""
}

// linJob is one executed round waiting for its verdict.
type linJob struct {
	obj, sc    string
	round, rep int
	rs         int64
	p          *program
	h          []record
	res        checkResult
}

// checkBatch checks the histories of a batch in parallel. The rounds themselves are executed one
// after the other on an otherwise idle machine (so that the released goroutines really overlap);
// only the searches, which are sequential CPU work, are spread over the cores.
func (r *run) checkBatch(jobs []*linJob) {
	workers := runtime.GOMAXPROCS(0)
	if workers > len(jobs) {
		workers = len(jobs)
	}
	var next int32 = -1
	var wg sync.WaitGroup
	for w := 0; w < workers; w++ {
		wg.Add(1)
		go func() {
			defer wg.Done()
			for {
				i := int(atomic.AddInt32(&next, 1))
				if i >= len(jobs) {
					return
				}
				jobs[i].res = checkHistory(jobs[i].h, r.paranoid)
				beat() // checking a history is progress too (the watchdog is about the code under test, not about the checker)
			}
		}()
	}
	wg.Wait()
}

func (r *run) sectionMapLin() error {
	const section = "map-linearizability"
	const batchSize = 128
	maxG := r.goroutines
	if maxG > 16 {
		maxG = 16
	}
	if maxG < 2 {
		maxG = 2
	}
	sampled := map[string]bool{}
	reported := map[string]int{}
	var batch []*linJob
	flush := func() error {
		t0 := time.Now()
		r.checkBatch(batch)
		r.out.SectionSeconds[section+"/checking"] += time.Since(t0).Seconds()
		for _, j := range batch {
			name := j.obj + "/" + j.sc
			if j.res.err != nil {
				js, _ := json.Marshal(renderHistory(j.h))
				return fmt.Errorf("%s round %d: %v\n%s", name, j.round, j.res.err, js)
			}
			r.out.HistoriesChecked++
			r.out.HistoryOps += len(j.h)
			for _, rec := range j.h {
				if rec.Ret != rec.Call+1 { // another operation was called or returned inside this one
					r.out.OverlappedOps++
				}
			}
			if j.res.porc != linUnknown {
				r.out.HistoriesPorcupine++
			}
			what := ""
			switch j.res.v {
			case linIllegal:
				what = "history is not linearizable w.r.t. the sequential map specification"
			case linUnknown:
				r.out.HistoriesUnknown++
			}
			if d := directChecks(j.sc, j.p, j.h); d != "" {
				if what != "" {
					what += "; "
				}
				what += d
			}
			if what != "" {
				r.out.IllegalHistories++
				reported[name]++
				if reported[name] > maxFindingsPerScenario {
					continue
				}
				if confirmPorcupine(j.h, &j.res); j.res.err != nil {
					js, _ := json.Marshal(renderHistory(j.h))
					return fmt.Errorf("%s round %d: %v\n%s", name, j.round, j.res.err, js)
				}
				r.addFinding(section, name+": "+what, map[string]interface{}{
					"seed": r.seed, "section": section, "scenario": name, "round": j.round, "repetition": j.rep,
					"round_seed": j.rs, "goroutines": len(j.p.Par), "history": renderHistory(j.h),
					"verdicts": map[string]string{"own": j.res.own.String(), "porcupine": j.res.porc.String()},
					"rerun":    fmt.Sprintf("bin/conc -seed %d -sections 1 -scenario %s -round %d -repeat 500", r.seed, name, j.round),
				})
			} else if !sampled[name] {
				sampled[name] = true
				r.addSample(map[string]interface{}{
					"section": section, "scenario": name, "round": j.round, "verdict": j.res.v.String(),
					"history": renderHistory(j.h),
				})
			}
		}
		batch = batch[:0]
		return nil
	}
	for _, obj := range objects {
		for _, sc := range scenarioNames {
			if r.onlyScenario != "" && r.onlyScenario != obj.name+"/"+sc {
				continue
			}
			first, last := 0, r.rounds
			if r.onlyRound >= 0 {
				first, last = r.onlyRound, r.onlyRound+1
			}
			for round := first; round < last; round++ {
				for rep := 0; rep < r.repeat; rep++ {
					rs := roundSeed(r.seed, section, obj.name, sc, round)
					ut := obj.mk()
					p := genProgram(rand.New(rand.NewSource(rs)), sc, maxG, ut)
					h := runProgram(p, ut)
					beat()
					batch = append(batch, &linJob{obj: obj.name, sc: sc, round: round, rep: rep, rs: rs, p: p, h: h})

					// the same program once more, unstamped and repeated, for the race detector
					r.out.HammerOps += hammer(p, obj.mk(), 4)

					if len(batch) >= batchSize {
						if err := flush(); err != nil {
							return err
						}
					}
				}
			}
		}
	}
	return flush()
}
