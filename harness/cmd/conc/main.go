// Command conc is the concurrency stress / history checker for property C19:
//
//	"The function container and the map beneath it behave as a linearizable map under concurrent
//	Get, Add/Insert, Replace/Set, Remove, Len and Keys, and the atomic flag, counter, integer and
//	string types lose no update. Built-in functions may execute concurrently with each other, with
//	gas-schedule changes and with epoch notifications without data races, and each execution is
//	charged wholly by one schedule — never a mixture of one schedule's base cost and another's
//	per-byte price."
//
// Build (the race detector is part of the check):
//
//	cd /verif/harness && go build -race -tags verif -o bin/conc ./cmd/conc
//
// Run:
//
//	GORACE="halt_on_error=1 exitcode=66" bin/conc -seed <n> -rounds <r> [-goroutines <g>] -out <file.json>
//
// Sections (all seeded from -seed; every round's program is a pure function of
// (seed, section, scenario, round), see roundSeed):
//
//  1. map-linearizability  container.MutexMap and builtInFunctions.NewBuiltInFunctionContainer():
//     -rounds rounds per (object, scenario); barrier-released goroutines, call/return stamps from
//     one sync/atomic counter, every history checked against the sequential map specification by
//     an own search (decides every history) AND by porcupine v1.3.0 (100 ms budget per history,
//     10 s for histories written out as findings); two definite verdicts that disagree are an
//     internal error (exit 2). -paranoid adds a third, reduction-free search.
//     Every program is also run a second time without stamps for the race detector.
//  2. atomics              Counter (sum / tickets / Reset), Flag (test-and-set, mixes), Int64,
//     Uint32, Uint64, String (only written values, never backwards, final = some last Set).
//  3. one-schedule-charge  one factory-built container shared by g-2 executors that own private
//     sender accounts, one goroutine flipping factory.GasScheduleChange(A|B), one goroutine
//     confirming epochs ≥ activation. Every charge must be the scenario's charge under A or under
//     B; the flipper performs rounds × flips-per-round flips.
//  4. race detector        sections 1–3 run under -race; the first detected race ends the process
//     with exit code 66 and the report on stderr. The binary enforces this itself: started
//     without halt_on_error in GORACE it re-executes itself with
//     GORACE="halt_on_error=1 exitcode=66 atexit_sleep_ms=0" (see ensureHaltOnRace).
//
// Exit status: 0 no finding, 1 findings, 2 usage / internal error, 66 data race.
//
// Replay of a finding: the "replay" object carries seed, section, scenario, round and the recorded
// history, plus a "rerun" command line that re-executes exactly that round's program many times
// (-sections / -scenario / -round / -repeat).
package main

import (
	"encoding/json"
	"flag"
	"fmt"
	"io/ioutil"
	"math/big"
	"os"
	"runtime"
	"strings"
	"sync/atomic"
	"syscall"
	"time"
)

// Bounds on the findings written out (all violations are counted): per section for section 3,
// per (object, scenario) for section 1.
const (
	maxFindingsPerSection  = 10
	maxFindingsPerScenario = 3
)

type finding struct {
	Section string      `json:"section"`
	What    string      `json:"what"`
	Replay  interface{} `json:"replay"`
}

type output struct {
	Seed               int64 `json:"seed"`
	Rounds             int   `json:"rounds"`
	Goroutines         int   `json:"goroutines"`
	GoMaxProcs         int   `json:"gomaxprocs"`
	RaceEnabled        bool  `json:"race_detector"`
	LockHeldExecutions int   `json:"lock_held_executions"`
	LockHeldDepCalls   int   `json:"lock_held_dependency_calls"`
	HistoriesChecked   int   `json:"histories_checked"`
	HistoryOps         int   `json:"history_ops"`
	HistoriesUnknown   int   `json:"histories_unknown"`
	// OverlappedOps counts the recorded operations during which another operation was called or
	// returned: the measure of how much real concurrency the histories contain.
	OverlappedOps int `json:"history_ops_overlapped"`
	// HistoriesPorcupine counts the histories on which porcupine reached a verdict within its
	// timeout (the own search decides the rest alone).
	HistoriesPorcupine int `json:"histories_decided_by_porcupine_too"`
	IllegalHistories   int `json:"illegal_histories"`
	HammerOps          int `json:"unstamped_ops"`

	ChargesChecked     int                       `json:"charges_checked"`
	ChargesBySchedule  map[string]int            `json:"charges_by_schedule"`
	ChargesByScenario  map[string]map[string]int `json:"charges_by_scenario,omitempty"`
	MixedCharges       int                       `json:"mixed_charges"`
	ScheduleFlips      int                       `json:"schedule_flips"`
	EpochNotifications int                       `json:"epoch_notifications"`
	Executors          int                       `json:"executors"`

	AtomicsOps     int `json:"atomics_ops"`
	AtomicsRounds  int `json:"atomics_rounds"`
	FlagDetermined int `json:"flag_rounds_with_determined_final_state"`

	SectionSeconds map[string]float64       `json:"section_seconds"`
	Findings       []finding                `json:"findings"`
	Samples        []map[string]interface{} `json:"samples"`
}

type run struct {
	seed          int64
	rounds        int
	goroutines    int
	flipsPerRound int
	onlyScenario  string
	onlyRound     int
	repeat        int
	paranoid      bool
	out           *output
}

func (r *run) addFinding(section, what string, replay interface{}) {
	r.out.Findings = append(r.out.Findings, finding{Section: section, What: what, Replay: replay})
	fmt.Fprintf(os.Stderr, "FINDING [%s] %s\n", section, what)
}

func (r *run) addSample(s map[string]interface{}) { r.out.Samples = append(r.out.Samples, s) }

func newBig(v int64) *big.Int { return big.NewInt(v) }

// ensureHaltOnRace makes "exit code 66 at the first data race" independent of the caller's
// environment: a race-enabled binary started without halt_on_error in GORACE re-executes itself
// with GORACE="halt_on_error=1 exitcode=66 atexit_sleep_ms=0" (the race runtime reads GORACE only
// at start-up, and without halt_on_error it turns a race into exit code 66 only when the program
// exits with status 0, so findings would mask it).
func ensureHaltOnRace() {
	if !raceEnabled || strings.Contains(os.Getenv("GORACE"), "halt_on_error") {
		return
	}
	exe, err := os.Executable()
	if err != nil {
		return
	}
	env := make([]string, 0, len(os.Environ())+1)
	for _, kv := range os.Environ() {
		if !strings.HasPrefix(kv, "GORACE=") {
			env = append(env, kv)
		}
	}
	env = append(env, "GORACE="+strings.TrimSpace(os.Getenv("GORACE")+" halt_on_error=1 exitcode=66 atexit_sleep_ms=0"))
	_ = syscall.Exec(exe, os.Args, env) // returns only on failure: carry on with the settings we have
}

func main() {
	ensureHaltOnRace()
	seed := flag.Int64("seed", 1, "run seed")
	rounds := flag.Int("rounds", 300, "rounds per sub-scenario (sections 1, 2); section 3 performs rounds × flips-per-round schedule flips")
	gor := flag.Int("goroutines", 16, "maximum goroutines per round (sections 1, 2: 2..min(g,16)); section 3 uses g-2 executors + flipper + epoch notifier")
	outPath := flag.String("out", "", "write the JSON report to this file (default: stdout)")
	sections := flag.String("sections", "1,2,3,4", "comma separated sections to run")
	scenario := flag.String("scenario", "", "run only this scenario (e.g. MutexMap/same-key-add, counter-sum)")
	round := flag.Int("round", -1, "run only this round of the selected scenarios")
	repeat := flag.Int("repeat", 1, "execute every round's program this many times")
	flipsPerRound := flag.Int("flips-per-round", 10, "section 3: schedule flips per round")
	paranoid := flag.Bool("paranoid", false, "section 1: additionally run the reduction-free search on every history")
	stall := flag.Int("stall", 90, "seconds without progress (a finished round / a finished schedule flip) after which the run is reported as deadlocked")
	flag.Parse()
	if *rounds < 1 || *gor < 2 || *repeat < 1 || *flipsPerRound < 1 || flag.NArg() != 0 {
		fmt.Fprintln(os.Stderr, "usage: conc -seed <n> -rounds <r> [-goroutines <g>] -out <file.json>")
		os.Exit(2)
	}

	r := &run{seed: *seed, rounds: *rounds, goroutines: *gor, flipsPerRound: *flipsPerRound,
		onlyScenario: *scenario, onlyRound: *round, repeat: *repeat, paranoid: *paranoid,
		out: &output{Seed: *seed, Rounds: *rounds, Goroutines: *gor, GoMaxProcs: runtime.GOMAXPROCS(0), RaceEnabled: raceEnabled,
			ChargesBySchedule: map[string]int{"A": 0, "B": 0}, SectionSeconds: map[string]float64{},
			Findings: []finding{}, Samples: []map[string]interface{}{}}}

	startWatchdog(*seed, *rounds, *outPath, *stall)
	if err := selfTestCheckers(); err != nil {
		fmt.Fprintln(os.Stderr, "internal error:", err)
		os.Exit(2)
	}

	type sec struct {
		id   string
		name string
		f    func() error
	}
	all := []sec{
		{"1", "map-linearizability", r.sectionMapLin},
		{"2", sectionAtomics, r.sectionAtomics},
		// section 4 is sequential, deterministic and fast: it runs before the free-running section 3, so that a function
		// that deadlocks or gives its lock up in the middle is reported at once (and with the sharper message)
		{"4", sectionLockHeld, r.sectionLockHeld},
		{"3", sectionCharge, r.sectionCharge},
	}
	want := map[string]bool{}
	for _, s := range strings.Split(*sections, ",") {
		want[strings.TrimSpace(s)] = true
	}
	for _, s := range all {
		if !want[s.id] && !want[s.name] {
			continue
		}
		t0 := time.Now()
		currentSection.Store(s.name)
		beat()
		if err := s.f(); err != nil {
			fmt.Fprintf(os.Stderr, "internal error in section %s: %v\n", s.name, err)
			os.Exit(2)
		}
		r.out.SectionSeconds[s.name] = time.Since(t0).Seconds()
		if s.id == "4" && len(r.out.Findings) > 0 {
			break // the lock is broken: the free-running section would only find the same thing the slow way (or hang on it)
		}
	}

	js, err := json.MarshalIndent(r.out, "", " ")
	if err != nil {
		fmt.Fprintln(os.Stderr, "internal error:", err)
		os.Exit(2)
	}
	js = append(js, '\n')
	if *outPath == "" {
		os.Stdout.Write(js)
	} else if err := ioutil.WriteFile(*outPath, js, 0644); err != nil {
		fmt.Fprintln(os.Stderr, "cannot write report:", err)
		os.Exit(2)
	}
	fmt.Fprintf(os.Stderr, "conc: seed=%d rounds=%d histories=%d (%d ops, %d unknown) atomics_ops=%d charges=%d (A=%d B=%d mixed=%d, %d flips) findings=%d\n",
		r.out.Seed, r.out.Rounds, r.out.HistoriesChecked, r.out.HistoryOps, r.out.HistoriesUnknown, r.out.AtomicsOps,
		r.out.ChargesChecked, r.out.ChargesBySchedule["A"], r.out.ChargesBySchedule["B"], r.out.MixedCharges, r.out.ScheduleFlips, len(r.out.Findings))
	if len(r.out.Findings) > 0 {
		os.Exit(1)
	}
	os.Exit(0)
}

// ---------------------------------------------------------------------------
// progress watchdog: a deadlock (or livelock) of the code under test must end the run with a finding, not hang it
// ---------------------------------------------------------------------------

var heartbeat int64
var currentSection atomic.Value // string

// beat is called whenever a unit of work that involves the code under test has finished: a round of sections 1 and 2,
// a schedule flip of section 3 (the flipper needs the write lock of every priced function object: if an execution holds
// a read lock forever - e.g. because it takes the same read lock again while a writer waits - no flip ever finishes).
func beat() { atomic.AddInt64(&heartbeat, 1) }

func startWatchdog(seed int64, rounds int, outPath string, stall int) {
	currentSection.Store("start")
	go func() {
		last, since := int64(-1), time.Now()
		for {
			time.Sleep(2 * time.Second)
			h := atomic.LoadInt64(&heartbeat)
			if h != last {
				last, since = h, time.Now()
				continue
			}
			if time.Since(since) < time.Duration(stall)*time.Second {
				continue
			}
			buf := make([]byte, 1<<20)
			n := runtime.Stack(buf, true)
			sec, _ := currentSection.Load().(string)
			what := fmt.Sprintf("no progress for %d s in section %s: the code under test is deadlocked or livelocked (no round / no schedule flip finishes); goroutine dump in the replay object", stall, sec)
			rep := map[string]interface{}{
				"seed": seed, "rounds": rounds, "race_detector": raceEnabled,
				"findings": []finding{{Section: sec, What: what, Replay: map[string]interface{}{
					"rerun":      fmt.Sprintf("bin/conc -seed %d -rounds %d", seed, rounds),
					"goroutines": string(buf[:n]),
				}}},
			}
			js, _ := json.MarshalIndent(rep, "", " ")
			if outPath == "" {
				os.Stdout.Write(js)
			} else {
				_ = ioutil.WriteFile(outPath, js, 0644)
			}
			fmt.Fprintln(os.Stderr, "conc:", what)
			os.Exit(1)
		}
	}()
}
