package world

import (
	"math/big"
	"sort"
	"strconv"
	"strings"

	vmcommon "github.com/ElrondNetwork/elrond-vm-common"
	"github.com/ElrondNetwork/elrond-vm-common/builtInFunctions"
	"github.com/ElrondNetwork/elrond-vm-common/container"
	"github.com/ElrondNetwork/elrond-vm-common/data"
	"github.com/ElrondNetwork/elrond-vm-common/data/esdt"
	"github.com/ElrondNetwork/elrond-vm-common/parsers"
	"github.com/ElrondNetwork/elrond-vm-common/txDataBuilder"
)

// Pure ops (PROTOCOL §4). Every function returns the observation line; a panic of the code under
// test is recovered by Exec and answered `panic`.
var pureOps map[string]func(w *World, a []string) string

func init() {
	pureOps = map[string]func(w *World, a []string) string{
		"parsecall":    opParseCall,
		"parsedeploy":  opParseDeploy,
		"parsestorage": opParseStorage,
		"buildstorage": opBuildStorage,
		"parseesdt":    opParseESDT,
		"build":        opBuild,
		"buildseq":     opBuildSeq,
		"enccall":      opEncCall,
		"enctoken":     opEncToken,
		"dectoken":     opDecToken,
		"decaddenc":    opDecAddEnc,
		"encroles":     opEncRoles,
		"decroles":     opDecRoles,
		"encmeta":      opEncMeta,
		"decmeta":      opDecMeta,
		"bigenc":       opBigEnc,
		"bigdec":       opBigDec,
		"codemeta":     opCodeMeta,
		"usermeta":     opUserMeta,
		"globalmeta":   opGlobalMeta,
		"addr":         opAddr,
		"safesub":      opSafeSub,
		"mapseq":       opMapSeq,
	}
}

func b01(b bool) string {
	if b {
		return "1"
	}
	return "0"
}

func unhexAll(toks []string) ([][]byte, bool) {
	out := make([][]byte, 0, len(toks))
	for _, t := range toks {
		b, ok := unhex(t)
		if !ok {
			return nil, false
		}
		out = append(out, b)
	}
	return out, true
}

// one parses the single byte-string argument of an op.
func one(a []string) ([]byte, bool) {
	if len(a) != 1 {
		return nil, false
	}
	return unhex(a[0])
}

// --- parsers ----------------------------------------------------------------

func opParseCall(_ *World, a []string) string {
	d, ok := one(a)
	if !ok {
		return obsBadOp
	}
	fn, args, err := theCallArgsParser.ParseData(string(d))
	if err != nil {
		return "err:" + ErrKind(err)
	}
	return "ok " + hxTok([]byte(fn)) + " " + hxList(args, ",")
}

func codeMetaFlags(m vmcommon.CodeMetadata) string {
	return b01(m.Upgradeable) + b01(m.Payable) + b01(m.Readable)
}

func opParseDeploy(_ *World, a []string) string {
	d, ok := one(a)
	if !ok {
		return obsBadOp
	}
	res, err := theDeployArgsParser.ParseData(string(d))
	if err != nil {
		return "err:" + ErrKind(err)
	}
	return "ok " + hxTok(res.Code) + " " + hxTok(res.VMType) + " " + codeMetaFlags(res.CodeMetadata) + " " + hxList(res.Arguments, ",")
}

func opParseStorage(_ *World, a []string) string {
	d, ok := one(a)
	if !ok {
		return obsBadOp
	}
	ups, err := theStorageUpdatesParser.GetStorageUpdates(string(d))
	if err != nil {
		return "err:" + ErrKind(err)
	}
	parts := make([]string, len(ups))
	for i, u := range ups {
		if u == nil {
			parts[i] = "n"
			continue
		}
		parts[i] = hx(u.Offset) + ":" + hx(u.Data)
	}
	return "ok " + strings.Join(parts, ",")
}

func opBuildStorage(_ *World, a []string) string {
	if len(a) != 1 || a[0] == "" {
		return obsBadOp
	}
	ups := make([]*vmcommon.StorageUpdate, 0)
	if a[0] != "-" {
		for _, item := range strings.Split(a[0], ",") {
			p := strings.Split(item, ":")
			if len(p) != 2 {
				return obsBadOp
			}
			off, ok1 := unhexField(p[0])
			val, ok2 := unhexField(p[1])
			if !ok1 || !ok2 {
				return obsBadOp
			}
			ups = append(ups, &vmcommon.StorageUpdate{Offset: off, Data: val})
		}
	}
	s := theStorageUpdatesParser.CreateDataFromStorageUpdate(ups)
	return "ok " + hxTok([]byte(s))
}

func opParseESDT(_ *World, a []string) string {
	if len(a) < 3 {
		return obsBadOp
	}
	bs, ok := unhexAll(a)
	if !ok {
		return obsBadOp
	}
	p, err := theESDTTransferParser, errESDTTransferParser
	if err != nil {
		return "err:" + ErrKind(err)
	}
	res, err := p.ParseESDTTransfers(bs[0], bs[1], string(bs[2]), bs[3:])
	if err != nil {
		return "err:" + ErrKind(err)
	}
	if res == nil {
		return "ok n"
	}
	parts := make([]string, len(res.ESDTTransfers))
	for i, t := range res.ESDTTransfers {
		if t == nil {
			parts[i] = "n"
			continue
		}
		parts[i] = hx(t.ESDTTokenName) + "/" + strconv.FormatUint(t.ESDTTokenNonce, 10) + "/" +
			strconv.FormatUint(uint64(t.ESDTTokenType), 10) + "/" + bigOrN(t.ESDTValue)
	}
	return "ok " + hxTok(res.RcvAddr) + " " + hxTok([]byte(res.CallFunction)) + " " + hxList(res.CallArgs, ",") + " " + strings.Join(parts, "|")
}

// --- builders ---------------------------------------------------------------

func opBuild(_ *World, a []string) string {
	if len(a) < 1 {
		return obsBadOp
	}
	bs, ok := unhexAll(a)
	if !ok {
		return obsBadOp
	}
	b := txDataBuilder.NewBuilder().Func(string(bs[0]))
	for _, arg := range bs[1:] {
		b.Bytes(arg)
	}
	return "ok " + hxTok([]byte(b.ToString()))
}

// opBuildSeq: `buildseq <step> <step> ...` drives ONE builder object through a sequence of its methods, reads included:
//
//	f:<hex> Func   b:<hex> Bytes   y:<hex byte> Byte   s:<hex> Str   i:<int64> Int64   t True   x False   c Clear
//	l:<hex> SetLast(string)   r ToString (read)   g GetLast (read)
//
// observation: ok <read>,<read>,...  (each read as hex of the returned string, `-` when empty; `ok` alone without reads)
func opBuildSeq(_ *World, a []string) string {
	b := txDataBuilder.NewBuilder()
	reads := []string{}
	for _, st := range a {
		kind, arg := st, ""
		if i := strings.IndexByte(st, ':'); i >= 0 {
			kind, arg = st[:i], st[i+1:]
		}
		var val []byte
		if kind != "i" && kind != "t" && kind != "x" && kind != "c" && kind != "r" && kind != "g" {
			v, ok := unhexField(arg)
			if !ok {
				return obsBadOp
			}
			val = v
		}
		switch kind {
		case "f":
			b.Func(string(val))
		case "b":
			b.Bytes(val)
		case "y":
			if len(val) != 1 {
				return obsBadOp
			}
			b.Byte(val[0])
		case "s":
			b.Str(string(val))
		case "i":
			n, err := strconv.ParseInt(arg, 10, 64)
			if err != nil {
				return obsBadOp
			}
			b.Int64(n)
		case "t":
			b.True()
		case "x":
			b.False()
		case "c":
			b.Clear()
		case "l":
			b.SetLast(string(val))
		case "r":
			reads = append(reads, hxTok([]byte(b.ToString())))
		case "g":
			reads = append(reads, hxTok([]byte(b.GetLast())))
		default:
			return obsBadOp
		}
	}
	if len(reads) == 0 {
		return "ok"
	}
	return "ok " + strings.Join(reads, ",")
}

// The parsers are long-lived objects in a node: ONE instance of each serves every op of a run, so that state a parser
// keeps between calls (none, on the pinned tree) shows in the answers.
var (
	theCallArgsParser                            = parsers.NewCallArgsParser()
	theDeployArgsParser                          = parsers.NewDeployArgsParser()
	theStorageUpdatesParser                      = parsers.NewStorageUpdatesParser()
	theESDTTransferParser, errESDTTransferParser = parsers.NewESDTTransferParser(pbMarshalizer{})
)

const probeGasmap = "BaseOperationCost.StorePerByte=1,BaseOperationCost.ReleasePerByte=1,BaseOperationCost.DataCopyPerByte=1," +
	"BaseOperationCost.PersistPerByte=1,BaseOperationCost.CompilePerByte=1,BaseOperationCost.AoTPreparePerByte=1," +
	"BuiltInCost.ChangeOwnerAddress=1,BuiltInCost.ClaimDeveloperRewards=1,BuiltInCost.SaveUserName=1,BuiltInCost.SaveKeyValue=1," +
	"BuiltInCost.ESDTTransfer=1,BuiltInCost.ESDTBurn=1,BuiltInCost.ESDTLocalMint=1,BuiltInCost.ESDTLocalBurn=1," +
	"BuiltInCost.ESDTNFTCreate=1,BuiltInCost.ESDTNFTAddQuantity=1,BuiltInCost.ESDTNFTBurn=1,BuiltInCost.ESDTNFTTransfer=1," +
	"BuiltInCost.ESDTNFTChangeCreateOwner=1,BuiltInCost.ESDTNFTMultiTransfer=1,BuiltInCost.ESDTNFTAddURI=1,BuiltInCost.ESDTNFTUpdateAttributes=1"

var (
	// contract on shard 0 of a two-shard probe world (8 leading zero bytes, not a metachain contract)
	probeContract = append(append(make([]byte, 8), 5, 0), append(bytesOf(0x33, 21), 0)...)
	// user on shard 1: its account is absent where the probe runs
	probeCaller = append(bytesOf(0x01, 31), 1)
	probeToken  = []byte("PROBE-000000")
)

func bytesOf(b byte, n int) []byte {
	out := make([]byte, n)
	for i := range out {
		out[i] = b
	}
	return out
}

// EncodeCall obtains fn + "@" + hex(arg)... from the built-ins' own (unexported) encoder
// addOutputTransferToVMOutput: it runs the real ESDTTransfer on the destination side of a scratch
// world with a contract recipient and an attached call (fn, args) and returns the emitted Data.
func (w *World) EncodeCall(fn []byte, args [][]byte) ([]byte, bool) {
	if w.probe == nil {
		p := New()
		if p.opWorld([]string{"2", "0", "0", "-", probeGasmap}) != "world ok" {
			return nil, false
		}
		w.probe = p
	}
	p := w.probe
	sh := p.shards[0]
	sh.accounts.m = map[string]*Account{}
	c := &Call{
		Shard:     0,
		Fn:        vmcommon.BuiltInFunctionESDTTransfer,
		Caller:    probeCaller,
		Rcv:       probeContract,
		CallValue: new(big.Int),
		Args:      append([][]byte{probeToken, {1}, fn}, args...),
	}
	res := sh.run(p, c, -1)
	if res.Panic != nil {
		panic(res.Panic)
	}
	if res.Status != "ok" {
		return nil, false
	}
	oa := res.Out.OutputAccounts[string(probeContract)]
	if oa == nil || len(oa.OutputTransfers) != 1 {
		return nil, false
	}
	return oa.OutputTransfers[0].Data, true
}

func opEncCall(w *World, a []string) string {
	if len(a) < 1 {
		return obsBadOp
	}
	bs, ok := unhexAll(a)
	if !ok {
		return obsBadOp
	}
	d, ok := w.EncodeCall(bs[0], bs[1:])
	if !ok {
		return "err"
	}
	return "ok " + hxTok(d)
}

// --- codec ------------------------------------------------------------------

// <M> = <nonce>:<name>:<creator>:<royalties>:<hash>:<attrs>:<uri>.<uri>
func parseMeta(tok string) (*esdt.MetaData, bool) {
	p := strings.Split(tok, ":")
	if len(p) != 7 {
		return nil, false
	}
	nonce, ok := parseU64(p[0])
	if !ok {
		return nil, false
	}
	roy, ok := parseU64(p[3])
	if !ok || roy > 0xFFFFFFFF {
		return nil, false
	}
	name, ok1 := unhexField(p[1])
	creator, ok2 := unhexField(p[2])
	hash, ok3 := unhexField(p[4])
	attrs, ok4 := unhexField(p[5])
	uris, ok5 := unhexList(p[6], ".")
	if !ok1 || !ok2 || !ok3 || !ok4 || !ok5 {
		return nil, false
	}
	return &esdt.MetaData{Nonce: nonce, Name: name, Creator: creator, Royalties: uint32(roy), Hash: hash, Attributes: attrs, URIs: uris}, true
}

func fmtMeta(m *esdt.MetaData) string {
	if m == nil {
		return "n"
	}
	return strconv.FormatUint(m.Nonce, 10) + ":" + hx(m.Name) + ":" + hx(m.Creator) + ":" +
		strconv.FormatUint(uint64(m.Royalties), 10) + ":" + hx(m.Hash) + ":" + hx(m.Attributes) + ":" + hxList(m.URIs, ".")
}

// <T> = <type>/<value|n>/<props>/<reserved>/<M|n>
func parseToken(tok string) (*esdt.ESDigitalToken, bool) {
	p := strings.Split(tok, "/")
	if len(p) != 5 {
		return nil, false
	}
	typ, ok := parseU64(p[0])
	if !ok || typ > 0xFFFFFFFF {
		return nil, false
	}
	t := &esdt.ESDigitalToken{Type: uint32(typ)}
	if p[1] != "n" {
		if t.Value, ok = parseBig(p[1]); !ok {
			return nil, false
		}
	}
	if t.Properties, ok = unhexField(p[2]); !ok {
		return nil, false
	}
	if t.Reserved, ok = unhexField(p[3]); !ok {
		return nil, false
	}
	if p[4] != "n" {
		if t.TokenMetaData, ok = parseMeta(p[4]); !ok {
			return nil, false
		}
	}
	return t, true
}

func fmtToken(t *esdt.ESDigitalToken) string {
	return strconv.FormatUint(uint64(t.Type), 10) + "/" + bigOrN(t.Value) + "/" + hx(t.Properties) + "/" + hx(t.Reserved) + "/" + fmtMeta(t.TokenMetaData)
}

func opEncToken(_ *World, a []string) string {
	if len(a) != 1 {
		return obsBadOp
	}
	t, ok := parseToken(a[0])
	if !ok {
		return obsBadOp
	}
	b, err := t.Marshal()
	if err != nil {
		return "err"
	}
	return "ok " + hxTok(b) + " " + strconv.Itoa(t.Size())
}

func opDecToken(_ *World, a []string) string {
	b, ok := one(a)
	if !ok {
		return obsBadOp
	}
	t := &esdt.ESDigitalToken{}
	if err := t.Unmarshal(b); err != nil {
		return "err"
	}
	return "ok " + fmtToken(t)
}

// opDecAddEnc: `decaddenc <bytes> <int>` - what the balance helpers do with a decoded entry: Unmarshal, add to the decoded
// Value IN PLACE (esdtData.Value.Add(esdtData.Value, v)), Marshal again. -> ok <bytes> | err
// A decoder that hands out shared numbers shows in the NEXT decode of an equal encoding.
func opDecAddEnc(_ *World, a []string) string {
	if len(a) != 2 {
		return obsBadOp
	}
	b, ok := unhexField(a[0])
	d, ok2 := parseBig(a[1])
	if !ok || !ok2 {
		return obsBadOp
	}
	t := &esdt.ESDigitalToken{}
	if err := t.Unmarshal(b); err != nil {
		return "err"
	}
	if t.Value != nil {
		t.Value.Add(t.Value, d)
	}
	out, err := t.Marshal()
	if err != nil {
		return "err"
	}
	return "ok " + hxTok(out)
}

func opEncRoles(_ *World, a []string) string {
	// no token or an empty token = the empty list; `-` = one empty role
	tok := ""
	switch len(a) {
	case 0:
	case 1:
		tok = a[0]
	default:
		return obsBadOp
	}
	roles, ok := unhexList(tok, ",")
	if !ok {
		return obsBadOp
	}
	r := &esdt.ESDTRoles{Roles: roles}
	b, err := r.Marshal()
	if err != nil {
		return "err"
	}
	return "ok " + hxTok(b) + " " + strconv.Itoa(r.Size())
}

func opDecRoles(_ *World, a []string) string {
	b, ok := one(a)
	if !ok {
		return obsBadOp
	}
	r := &esdt.ESDTRoles{}
	if err := r.Unmarshal(b); err != nil {
		return "err"
	}
	return "ok " + hxList(r.Roles, ",")
}

func opEncMeta(_ *World, a []string) string {
	if len(a) != 1 {
		return obsBadOp
	}
	m, ok := parseMeta(a[0])
	if !ok {
		return obsBadOp
	}
	b, err := m.Marshal()
	if err != nil {
		return "err"
	}
	return "ok " + hxTok(b) + " " + strconv.Itoa(m.Size())
}

func opDecMeta(_ *World, a []string) string {
	b, ok := one(a)
	if !ok {
		return obsBadOp
	}
	m := &esdt.MetaData{}
	if err := m.Unmarshal(b); err != nil {
		return "err"
	}
	return "ok " + fmtMeta(m)
}

func opBigEnc(_ *World, a []string) string {
	if len(a) != 1 {
		return obsBadOp
	}
	var v *big.Int
	if a[0] != "n" {
		var ok bool
		if v, ok = parseBig(a[0]); !ok {
			return obsBadOp
		}
	}
	c := &data.BigIntCaster{}
	size := c.Size(v)
	buf := make([]byte, size)
	if _, err := c.MarshalTo(v, buf); err != nil {
		return "err"
	}
	return "ok " + hxTok(buf) + " " + strconv.Itoa(size)
}

func opBigDec(_ *World, a []string) string {
	b, ok := one(a)
	if !ok {
		return obsBadOp
	}
	c := &data.BigIntCaster{}
	v, err := c.Unmarshal(b)
	if err != nil {
		return "err"
	}
	return "ok " + bigOrN(v)
}

// --- helpers ----------------------------------------------------------------

func opCodeMeta(_ *World, a []string) string {
	b, ok := one(a)
	if !ok {
		return obsBadOp
	}
	m := vmcommon.CodeMetadataFromBytes(b)
	return "ok " + codeMetaFlags(m) + " " + ownedBytes(b, m.ToBytes())
}

// ownedBytes renders the encoding a helper returned and then uses it — and the input the value was decoded from — the way
// an owner may: it overwrites both. A value decoded earlier or encoded later must not depend on either buffer (an encoder
// that hands out a shared buffer, or a decoder that keeps its input, shows on the NEXT helper line).
func ownedBytes(in, out []byte) string {
	s := hxTok(out)
	for i := range out {
		out[i] = 0xff
	}
	for i := range in {
		in[i] = 0xff
	}
	return s
}

func opUserMeta(_ *World, a []string) string {
	b, ok := one(a)
	if !ok {
		return obsBadOp
	}
	m := builtInFunctions.ESDTUserMetadataFromBytes(b)
	return "ok " + b01(m.Frozen) + " " + ownedBytes(b, m.ToBytes())
}

func opGlobalMeta(_ *World, a []string) string {
	b, ok := one(a)
	if !ok {
		return obsBadOp
	}
	m := builtInFunctions.ESDTGlobalMetadataFromBytes(b)
	return "ok " + b01(m.Paused) + " " + ownedBytes(b, m.ToBytes())
}

func opAddr(_ *World, a []string) string {
	b, ok := one(a)
	if !ok {
		return obsBadOp
	}
	id := []byte{}
	if len(b) > 0 {
		id = b[len(b)-1:]
	}
	return "ok sc=" + b01(vmcommon.IsSmartContractAddress(b)) +
		" empty=" + b01(vmcommon.IsEmptyAddress(b)) +
		" sys=" + b01(vmcommon.IsSystemAccountAddress(b)) +
		" metaid=" + b01(vmcommon.IsMetachainIdentifier(b)) +
		" scmeta=" + b01(vmcommon.IsSmartContractOnMetachain(id, b)) +
		" allowed=" + b01(vmcommon.IsAllowedToSaveUnderKey(b))
}

func opSafeSub(_ *World, a []string) string {
	if len(a) != 2 {
		return obsBadOp
	}
	x, ok1 := parseU64(a[0])
	y, ok2 := parseU64(a[1])
	if !ok1 || !ok2 {
		return obsBadOp
	}
	r, err := vmcommon.SafeSubUint64(x, y)
	if err != nil {
		return "err"
	}
	return "ok " + strconv.FormatUint(r, 10)
}

// opMapSeq: `mapseq <op> …` - the operations run one after the other on a fresh container.MutexMap (keys and values are
// numbers): g:k  i:k:v  s:k:v  r:k  l  k ; one output per operation (Keys sorted: Go's map order is not an observation).
func opMapSeq(_ *World, a []string) string {
	mm := container.NewMutexMap()
	outs := make([]string, 0, len(a))
	for _, t := range a {
		f := strings.Split(t, ":")
		num := func(i int) (uint64, bool) {
			if i >= len(f) {
				return 0, false
			}
			return parseU64(f[i])
		}
		switch {
		case f[0] == "g" && len(f) == 2:
			k, ok := num(1)
			if !ok {
				return obsBadOp
			}
			v, found := mm.Get(k)
			if !found {
				outs = append(outs, "-")
			} else {
				outs = append(outs, strconv.FormatUint(v.(uint64), 10))
			}
		case f[0] == "i" && len(f) == 3:
			k, ok1 := num(1)
			v, ok2 := num(2)
			if !ok1 || !ok2 {
				return obsBadOp
			}
			outs = append(outs, b01(mm.Insert(k, v)))
		case f[0] == "s" && len(f) == 3:
			k, ok1 := num(1)
			v, ok2 := num(2)
			if !ok1 || !ok2 {
				return obsBadOp
			}
			mm.Set(k, v)
			outs = append(outs, ".")
		case f[0] == "r" && len(f) == 2:
			k, ok := num(1)
			if !ok {
				return obsBadOp
			}
			mm.Remove(k)
			outs = append(outs, ".")
		case f[0] == "l" && len(f) == 1:
			outs = append(outs, strconv.Itoa(mm.Len()))
		case f[0] == "k" && len(f) == 1:
			var ks []uint64
			for _, k := range mm.Keys() {
				ks = append(ks, k.(uint64))
			}
			sort.Slice(ks, func(i, j int) bool { return ks[i] < ks[j] })
			parts := make([]string, len(ks))
			for i, k := range ks {
				parts[i] = strconv.FormatUint(k, 10)
			}
			outs = append(outs, "["+strings.Join(parts, "+")+"]")
		default:
			return obsBadOp
		}
	}
	return "ok " + strings.Join(outs, " ")
}
