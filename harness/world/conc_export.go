package world

// Additive accessors for the concurrency stress command (cmd/conc). Nothing here is reachable
// from an op line: the protocol behaviour of Exec is unchanged.

// Factory gives access to the real factory of a shard so that cmd/conc can call GasScheduleChange
// from its own goroutine (nil when out of range). The `gasmap` op does the same call sequentially.
func (w *World) Factory(shardID int) interface {
	GasScheduleChange(gasSchedule map[string]map[string]uint64)
} {
	if shardID < 0 || shardID >= len(w.shards) {
		return nil
	}
	return w.shards[shardID].factory
}

// ConfirmEpoch delivers EpochConfirmed(epoch, 0) to every handler registered with the shard's
// epoch notifier, exactly like the `epoch` op (no-op when out of range).
func (w *World) ConfirmEpoch(shardID int, epoch uint32) {
	if shardID < 0 || shardID >= len(w.shards) {
		return
	}
	w.shards[shardID].notifier.confirm(epoch, 0)
}

// SetDepHook installs (nil: removes) a function called at every dependency call of the executing built-in function
// (storage writes, account loads / saves, marshal / unmarshal, payable queries, account-level operations).
func (w *World) SetDepHook(h func(letter byte)) { w.tr.hook = h }

// LoadOrCreateAccount returns the account object of addr on the shard, creating it when absent (concurrency harness).
func (w *World) LoadOrCreateAccount(shardID int, addr []byte) *Account {
	if shardID < 0 || shardID >= len(w.shards) {
		return nil
	}
	return w.shards[shardID].accounts.getOrCreate(addr)
}
