package world

import (
	"errors"

	vmcommon "github.com/ElrondNetwork/elrond-vm-common"
)

// ---------------------------------------------------------------------------
// dependency tracer / fault injector
// ---------------------------------------------------------------------------

// ErrInjected is the error returned by the k-th counted dependency call when a fault is armed.
var ErrInjected = errors.New("verif: injected fault")

// errOracle is what the payable oracle answers for an address configured as `err`.
var errOracle = errors.New("verif: payable oracle error")

// Dependency letters (PROTOCOL §2, deps).
const (
	depWrite     = 'w' // data-trie write (SaveKeyValue)
	depLoad      = 'l' // adapter LoadAccount
	depSave      = 's' // adapter SaveAccount
	depMarshal   = 'm'
	depUnmarshal = 'u'
	depPayable   = 'p'
	depBalance   = 'b' // AddToBalance
	depOwner     = 'o' // ChangeOwnerAddress
	depClaim     = 'c' // ClaimDeveloperRewards
)

// tracer counts the dependency calls issued by the built-in function under execution and makes the
// k-th one fail when armed. One tracer is shared by everything that belongs to a World.
type tracer struct {
	active  bool   // only true while ProcessBuiltinFunction runs
	fn      string // name of the executing function (soft rule for the pause lookup)
	faultAt int    // index of the call that must fail, -1 = none
	letters []byte // one letter per counted call, in order
	// hook, when set, is called at EVERY dependency call (counted or not, tracing or not) from inside the executing
	// function: the concurrency harness uses it to look at the function's lock from within the execution
	hook func(letter byte)
	// alias: the accounts of this world keep the value slices they are GIVEN and hand out the slices they HOLD (as the
	// repository's own mock.Account does) instead of copying on both sides: code that mutates a retrieved value in
	// place, or keeps a slice it has saved, then changes stored state behind the world's back (C13)
	alias bool
}

func newTracer() *tracer {
	return &tracer{faultAt: -1}
}

// begin resets the trace; counting starts when the caller sets active.
func (t *tracer) begin(fn string, faultAt int) {
	t.active = false
	t.fn = fn
	t.faultAt = faultAt
	t.letters = t.letters[:0]
}

func (t *tracer) end() {
	t.active = false
	t.faultAt = -1
}

// hit records one counted dependency call; a non-nil result means "fail instead of acting".
func (t *tracer) hit(letter byte) error {
	if t.hook != nil {
		t.hook(letter)
	}
	if !t.active {
		return nil
	}
	idx := len(t.letters)
	t.letters = append(t.letters, letter)
	if idx == t.faultAt {
		return ErrInjected
	}
	return nil
}

// softLoad tells whether a LoadAccount of addr is the fail-soft pause lookup (not counted, never faulted).
func (t *tracer) softLoad(addr []byte) bool {
	if string(addr) != string(vmcommon.SystemAccountAddress) {
		return false
	}
	return t.fn != vmcommon.BuiltInFunctionESDTPause && t.fn != vmcommon.BuiltInFunctionESDTUnPause
}

// ---------------------------------------------------------------------------
// production marshalizer (generated protobuf code: Marshal(); Reset() + Unmarshal())
// ---------------------------------------------------------------------------

type pbObject interface {
	Marshal() ([]byte, error)
	Unmarshal([]byte) error
	Reset()
}

var errNotProto = errors.New("verif: object is not a generated protobuf message")

// pbMarshalizer is what the production node uses (gogo proto marshalizer), without tracing.
type pbMarshalizer struct{}

func (pbMarshalizer) Marshal(obj interface{}) ([]byte, error) {
	o, ok := obj.(pbObject)
	if !ok {
		return nil, errNotProto
	}
	return o.Marshal()
}

func (pbMarshalizer) Unmarshal(obj interface{}, buff []byte) error {
	o, ok := obj.(pbObject)
	if !ok {
		return errNotProto
	}
	o.Reset()
	return o.Unmarshal(buff)
}

func (pbMarshalizer) IsInterfaceNil() bool { return false }

// tracedMarshalizer is pbMarshalizer behind the tracer.
type tracedMarshalizer struct {
	tr *tracer
}

func (m *tracedMarshalizer) Marshal(obj interface{}) ([]byte, error) {
	if err := m.tr.hit(depMarshal); err != nil {
		return nil, err
	}
	return pbMarshalizer{}.Marshal(obj)
}

func (m *tracedMarshalizer) Unmarshal(obj interface{}, buff []byte) error {
	if err := m.tr.hit(depUnmarshal); err != nil {
		return err
	}
	return pbMarshalizer{}.Unmarshal(obj, buff)
}

func (m *tracedMarshalizer) IsInterfaceNil() bool { return m == nil }

// ---------------------------------------------------------------------------
// coordinator
// ---------------------------------------------------------------------------

// ShardOf is the topology shared with the model: metachain iff
// IsSmartContractOnMetachain([last byte], addr), else last byte mod nshards (0 for the empty address).
func ShardOf(addr []byte, nshards int) uint32 {
	last := byte(0)
	if len(addr) > 0 {
		last = addr[len(addr)-1]
	}
	if vmcommon.IsSmartContractOnMetachain([]byte{last}, addr) {
		return vmcommon.MetachainShardId
	}
	return uint32(last) % uint32(nshards)
}

type coordinator struct {
	self    uint32
	nshards int
}

func (c *coordinator) NumberOfShards() uint32          { return uint32(c.nshards) }
func (c *coordinator) ComputeId(address []byte) uint32 { return ShardOf(address, c.nshards) }
func (c *coordinator) SelfId() uint32                  { return c.self }
func (c *coordinator) SameShard(a, b []byte) bool {
	return ShardOf(a, c.nshards) == ShardOf(b, c.nshards)
}
func (c *coordinator) CommunicationIdentifier(uint32) string { return "" }
func (c *coordinator) IsInterfaceNil() bool                  { return c == nil }

// ---------------------------------------------------------------------------
// epoch notifier
// ---------------------------------------------------------------------------

type epochNotifier struct {
	handlers []vmcommon.EpochSubscriberHandler
	// onRegister: when set, a handler is told this epoch the moment it registers (as the node's notifier does)
	onRegister *uint32
}

// RegisterNotifyHandler only registers (literal PROTOCOL reading: handlers hear from the notifier
// through `epoch` ops and not otherwise). Until the first `epoch` op the epoch-gated functions
// are therefore inactive, whatever the activation epoch.
func (n *epochNotifier) RegisterNotifyHandler(h vmcommon.EpochSubscriberHandler) {
	if h == nil || h.IsInterfaceNil() {
		return
	}
	n.handlers = append(n.handlers, h)
	if n.onRegister != nil {
		h.EpochConfirmed(*n.onRegister, 0)
	}
}

func (n *epochNotifier) confirm(epoch uint32, timestamp uint64) {
	for _, h := range n.handlers {
		h.EpochConfirmed(epoch, timestamp)
	}
}

func (n *epochNotifier) IsInterfaceNil() bool { return n == nil }

// ---------------------------------------------------------------------------
// payable oracle
// ---------------------------------------------------------------------------

const (
	payYes = iota
	payNo
	payErr
)

// payableOracle answers IsPayable; the answers are shared by all shards of a World.
type payableOracle struct {
	tr      *tracer
	answers map[string]int
}

func (p *payableOracle) IsPayable(address []byte) (bool, error) {
	if err := p.tr.hit(depPayable); err != nil {
		return false, err
	}
	switch p.answers[string(address)] {
	case payNo:
		return false, nil
	case payErr:
		return false, errOracle
	}
	return true, nil
}

func (p *payableOracle) IsInterfaceNil() bool { return p == nil }
