package world

import (
	"bytes"
	"math/big"
	"sort"
	"strconv"
	"strings"

	vmcommon "github.com/ElrondNetwork/elrond-vm-common"
)

// DiffEntry is one changed (diff) or non-empty (dump) slot.
type DiffEntry struct {
	Addr []byte
	Slot string // `k<hexkey>`, `owner`, `name`, `reward`, `balance`
	New  string // rendered as in the protocol (hex or decimal; empty when deleted / emptied)
}

// CallResult is the parsed form of a call observation.
type CallResult struct {
	Status string // ok, err:<kind>, panic, nofunc, inactive, shape:<what>
	Out    *vmcommon.VMOutput
	Err    error
	Panic  interface{}
	Deps   string // always recorded, printed only under `trace 1`
	Diff   []DiffEntry
	// InputChanged names the scalar / header fields of the ContractCallInput that differ after the call ("" = none):
	// the input is the caller's structure (C13: the call never modifies it)
	InputChanged string
}

// Call is a parsed `call` op.
type Call struct {
	Shard     int
	Fn        string
	Caller    []byte
	Rcv       []byte
	Gas       uint64
	GasLocked uint64
	CallType  int
	RAE       bool
	CallValue *big.Int
	Args      [][]byte
}

func (w *World) parseCall(a []string) (*Call, bool) {
	if len(a) < 9 {
		return nil, false
	}
	c := &Call{}
	s, ok := parseU64(a[0])
	if !ok || s >= uint64(len(w.shards)) {
		return nil, false
	}
	c.Shard = int(s)
	c.Fn = a[1]
	if c.Caller, ok = unhex(a[2]); !ok {
		return nil, false
	}
	if c.Rcv, ok = unhex(a[3]); !ok {
		return nil, false
	}
	if c.Gas, ok = parseU64(a[4]); !ok {
		return nil, false
	}
	if c.GasLocked, ok = parseU64(a[5]); !ok {
		return nil, false
	}
	ct, err := strconv.Atoi(a[6])
	if err != nil || a[6][0] == '+' {
		return nil, false
	}
	c.CallType = ct
	switch a[7] {
	case "0":
	case "1":
		c.RAE = true
	default:
		return nil, false
	}
	if c.CallValue, ok = parseBig(a[8]); !ok {
		return nil, false
	}
	c.Args = make([][]byte, 0, len(a)-9)
	for _, t := range a[9:] {
		b, ok := unhex(t)
		if !ok {
			return nil, false
		}
		c.Args = append(c.Args, b)
	}
	return c, true
}

func (w *World) opCall(a []string) string {
	c, ok := w.parseCall(a)
	if !ok {
		return obsBadOp
	}
	res := w.Call(c)
	return w.FormatCall(res)
}

// Call executes a parsed call op (consuming an armed fault) and records it as the last call.
// Without a world, or with a shard out of range, the status is `badop` and nothing happens.
func (w *World) Call(c *Call) *CallResult {
	if c == nil || c.Shard < 0 || c.Shard >= len(w.shards) || c.CallValue == nil {
		return &CallResult{Status: obsBadOp}
	}
	fault := w.fault
	w.fault = -1
	res := w.shards[c.Shard].run(w, c, fault)
	w.last = res
	return res
}

func (sh *shard) present(addr []byte) bool {
	return bytes.Equal(addr, vmcommon.SystemAccountAddress) || sh.coord.ComputeId(addr) == sh.coord.self
}

func (sh *shard) run(w *World, c *Call, fault int) (res *CallResult) {
	res = &CallResult{}
	tr := w.tr
	// An empty trace must be recorded for nofunc / inactive as well.
	tr.begin(c.Fn, fault)

	f, err := sh.container.Get(c.Fn)
	if err != nil {
		res.Status = "nofunc"
		tr.end()
		return res
	}

	snap := sh.accounts.snapshot()
	restore := func() { sh.accounts.m = snap }

	var out *vmcommon.VMOutput
	var inactive bool
	func() {
		defer func() {
			if r := recover(); r != nil {
				res.Panic = r
			}
			tr.active = false
		}()
		if !f.IsActive() {
			inactive = true
			return
		}
		var snd, dst vmcommon.UserAccountHandler
		if sh.present(c.Caller) {
			snd = sh.accounts.getOrCreate(c.Caller)
		}
		if sh.present(c.Rcv) {
			dst = sh.accounts.getOrCreate(c.Rcv)
		}
		input := &vmcommon.ContractCallInput{
			VMInput: vmcommon.VMInput{
				CallerAddr:           c.Caller,
				Arguments:            c.Args,
				CallValue:            c.CallValue,
				CallType:             vmcommon.CallType(c.CallType),
				GasPrice:             0,
				GasProvided:          c.Gas,
				GasLocked:            c.GasLocked,
				ReturnCallAfterError: c.RAE,
			},
			RecipientAddr: c.Rcv,
			Function:      c.Fn,
		}
		before := *input
		tr.active = true
		defer func() {
			var ch []string
			add := func(c bool, n string) {
				if c {
					ch = append(ch, n)
				}
			}
			add(input.GasProvided != before.GasProvided, "GasProvided")
			add(input.GasLocked != before.GasLocked, "GasLocked")
			add(input.GasPrice != before.GasPrice, "GasPrice")
			add(input.CallType != before.CallType, "CallType")
			add(input.ReturnCallAfterError != before.ReturnCallAfterError, "ReturnCallAfterError")
			add(input.Function != before.Function, "Function")
			add(input.CallValue != before.CallValue, "CallValue(pointer)")
			add(len(input.Arguments) != len(before.Arguments) || (len(input.Arguments) > 0 && &input.Arguments[0] != &before.Arguments[0]), "Arguments(header)")
			add(len(input.CallerAddr) != len(before.CallerAddr) || (len(input.CallerAddr) > 0 && &input.CallerAddr[0] != &before.CallerAddr[0]), "CallerAddr(header)")
			add(len(input.RecipientAddr) != len(before.RecipientAddr) || (len(input.RecipientAddr) > 0 && &input.RecipientAddr[0] != &before.RecipientAddr[0]), "RecipientAddr(header)")
			add(input.AllowInitFunction != before.AllowInitFunction, "AllowInitFunction")
			res.InputChanged = strings.Join(ch, ",")
		}()
		out, err = f.ProcessBuiltinFunction(snd, dst, input)
	}()
	res.Deps = string(tr.letters)
	tr.end()

	switch {
	case res.Panic != nil:
		restore()
		res.Status = "panic"
	case inactive:
		res.Status = "inactive"
	case err != nil && out != nil:
		restore()
		res.Out, res.Err = out, err
		res.Status = "shape:bothset"
	case err != nil:
		restore()
		res.Err = err
		res.Status = "err:" + ErrKind(err)
	case out == nil:
		res.Status = "shape:bothnil"
	default:
		res.Out = out
		res.Status = "ok"
		res.Diff = diffStates(snap, sh.accounts.m)
	}
	return res
}

// ---------------------------------------------------------------------------
// canonical state: slots, diff, dump
// ---------------------------------------------------------------------------

func sortEntries(es []DiffEntry) {
	sort.Slice(es, func(i, j int) bool {
		if c := bytes.Compare(es[i].Addr, es[j].Addr); c != 0 {
			return c < 0
		}
		return es[i].Slot < es[j].Slot
	})
}

var emptyAccount = newAccount(nil, nil)

// diffAccounts appends the slots of b that differ from a (both non-nil).
func diffAccounts(addr []byte, a, b *Account, out []DiffEntry) []DiffEntry {
	for k, nv := range b.storage {
		if ov, ok := a.storage[k]; !ok || !bytes.Equal(ov, nv) {
			out = append(out, DiffEntry{Addr: addr, Slot: "k" + hx([]byte(k)), New: hx(nv)})
		}
	}
	for k := range a.storage {
		if _, ok := b.storage[k]; !ok {
			out = append(out, DiffEntry{Addr: addr, Slot: "k" + hx([]byte(k)), New: ""})
		}
	}
	if !bytes.Equal(a.owner, b.owner) {
		out = append(out, DiffEntry{Addr: addr, Slot: "owner", New: hx(b.owner)})
	}
	if !bytes.Equal(a.name, b.name) {
		out = append(out, DiffEntry{Addr: addr, Slot: "name", New: hx(b.name)})
	}
	if a.reward.Cmp(b.reward) != 0 {
		out = append(out, DiffEntry{Addr: addr, Slot: "reward", New: b.reward.String()})
	}
	if a.balance.Cmp(b.balance) != 0 {
		out = append(out, DiffEntry{Addr: addr, Slot: "balance", New: b.balance.String()})
	}
	return out
}

func diffStates(pre, post map[string]*Account) []DiffEntry {
	out := make([]DiffEntry, 0)
	for addr, b := range post {
		a := pre[addr]
		if a == nil {
			a = emptyAccount
		}
		out = diffAccounts([]byte(addr), a, b, out)
	}
	for addr, a := range pre {
		if _, ok := post[addr]; !ok {
			out = diffAccounts([]byte(addr), a, emptyAccount, out)
		}
	}
	sortEntries(out)
	return out
}

func dumpState(m map[string]*Account) []DiffEntry {
	out := make([]DiffEntry, 0)
	for addr, a := range m {
		out = diffAccounts([]byte(addr), emptyAccount, a, out)
	}
	sortEntries(out)
	return out
}

func renderEntries(es []DiffEntry) string {
	if len(es) == 0 {
		return ""
	}
	var sb strings.Builder
	for i, e := range es {
		if i > 0 {
			sb.WriteByte('|')
		}
		sb.WriteString(hx(e.Addr))
		sb.WriteByte('/')
		sb.WriteString(e.Slot)
		sb.WriteByte('/')
		sb.WriteString(e.New)
	}
	return sb.String()
}

// Dump returns all non-empty slots of a shard sorted by (addr, slot).
func (w *World) Dump(shardID int) []DiffEntry {
	if shardID < 0 || shardID >= len(w.shards) {
		return nil
	}
	return dumpState(w.shards[shardID].accounts.m)
}

func (w *World) opDump(a []string) string {
	if len(a) != 1 {
		return obsBadOp
	}
	sh, ok := w.shardArg(a[0])
	if !ok {
		return obsBadOp
	}
	return "dump " + renderEntries(dumpState(sh.accounts.m))
}

// ---------------------------------------------------------------------------
// observation line
// ---------------------------------------------------------------------------

func sortedOutputAccounts(out *vmcommon.VMOutput) []*vmcommon.OutputAccount {
	keys := make([]string, 0, len(out.OutputAccounts))
	for k := range out.OutputAccounts {
		keys = append(keys, k)
	}
	sort.Strings(keys)
	oas := make([]*vmcommon.OutputAccount, 0, len(keys))
	for _, k := range keys {
		oas = append(oas, out.OutputAccounts[k])
	}
	return oas
}

// FormatCall renders the observation line of a call result under the current trace setting.
func (w *World) FormatCall(res *CallResult) string {
	var sb strings.Builder
	sb.WriteString("R ")
	sb.WriteString(res.Status)
	if res.Status == "ok" {
		out := res.Out
		sb.WriteString(" ; gas=")
		sb.WriteString(strconv.FormatUint(out.GasRemaining, 10))
		sb.WriteString(" ; rc=")
		sb.WriteString(strconv.Itoa(int(out.ReturnCode)))
		sb.WriteString(" ; ret=")
		sb.WriteString(hxList(out.ReturnData, ","))

		sb.WriteString(" ; logs=")
		for i, l := range out.Logs {
			if i > 0 {
				sb.WriteByte('|')
			}
			if l == nil {
				sb.WriteByte('n')
				continue
			}
			sb.WriteString(hx(l.Identifier))
			sb.WriteByte('/')
			sb.WriteString(hx(l.Address))
			sb.WriteByte('/')
			sb.WriteString(hxList(l.Topics, "."))
			sb.WriteByte('/')
			sb.WriteString(hx(l.Data))
		}

		oas := sortedOutputAccounts(out)
		sb.WriteString(" ; xf=")
		first := true
		for _, oa := range oas {
			if oa == nil {
				continue
			}
			for _, t := range oa.OutputTransfers {
				if !first {
					sb.WriteByte('|')
				}
				first = false
				sb.WriteString(hx(oa.Address))
				sb.WriteByte('/')
				sb.WriteString(bigOrN(t.Value))
				sb.WriteByte('/')
				sb.WriteString(strconv.FormatUint(t.GasLimit, 10))
				sb.WriteByte('/')
				sb.WriteString(strconv.FormatUint(t.GasLocked, 10))
				sb.WriteByte('/')
				sb.WriteString(strconv.Itoa(int(t.CallType)))
				sb.WriteByte('/')
				sb.WriteString(hx(t.SenderAddress))
				sb.WriteByte('/')
				sb.WriteString(hx(t.Data))
			}
		}

		sb.WriteString(" ; oa=")
		for i, oa := range oas {
			if i > 0 {
				sb.WriteByte('|')
			}
			if oa == nil {
				sb.WriteByte('n')
				continue
			}
			sb.WriteString(hx(oa.Address))
			sb.WriteByte('/')
			sb.WriteString(bigOrN(oa.Balance))
			sb.WriteByte('/')
			sb.WriteString(bigOrN(oa.BalanceDelta))
			sb.WriteByte('/')
			sb.WriteString(strconv.FormatUint(oa.Nonce, 10))
			sb.WriteByte('/')
			sb.WriteString(strconv.Itoa(len(oa.StorageUpdates)))
		}

		sb.WriteString(" ; diff=")
		sb.WriteString(renderEntries(res.Diff))
	}
	if w.trace {
		sb.WriteString(" ; deps=")
		sb.WriteString(res.Deps)
	}
	return sb.String()
}
