package world

// mergeseq — C20: MergeOutputAccounts / MergeStorageUpdates on independently constructed accounts.
//
//   mergeseq <A0> <A1> ... <An>
//   A = addr;nonce;balance|n;delta|n;k:o:d,k:o:d;code;codeMeta;deployer|n|-;v.v.v;gasUsed
//
// A0 is the result account; A1..An are merged into it in order. Observation:
//   ok <A-format of the result> u=<bits>   bits[i-1] = 1 iff Ai is deep-equal, after ALL merges, to a clone taken
//                                          before the first merge (the merged-in account was never mutated).

import (
	"bytes"
	"math/big"
	"sort"
	"strconv"
	"strings"

	vmcommon "github.com/ElrondNetwork/elrond-vm-common"
)

func init() {
	pureOps["mergeseq"] = opMergeSeq
}

func parseOA(s string) (*vmcommon.OutputAccount, bool) {
	f := strings.Split(s, ";")
	if len(f) != 10 {
		return nil, false
	}
	oa := &vmcommon.OutputAccount{}
	b, ok := unhexField(f[0])
	if !ok {
		return nil, false
	}
	if len(b) > 0 {
		oa.Address = b
	}
	n, err := strconv.ParseUint(f[1], 10, 64)
	if err != nil {
		return nil, false
	}
	oa.Nonce = n
	if f[2] != "n" {
		v, ok := new(big.Int).SetString(f[2], 10)
		if !ok {
			return nil, false
		}
		oa.Balance = v
	}
	if f[3] != "n" {
		v, ok := new(big.Int).SetString(f[3], 10)
		if !ok {
			return nil, false
		}
		oa.BalanceDelta = v
	}
	if f[4] != "" {
		oa.StorageUpdates = map[string]*vmcommon.StorageUpdate{}
		for _, it := range strings.Split(f[4], ",") {
			p := strings.Split(it, ":")
			if len(p) != 3 {
				return nil, false
			}
			k, ok1 := unhexField(p[0])
			o, ok2 := unhexField(p[1])
			d, ok3 := unhexField(p[2])
			if !ok1 || !ok2 || !ok3 {
				return nil, false
			}
			oa.StorageUpdates[string(k)] = &vmcommon.StorageUpdate{Offset: o, Data: d}
		}
	}
	if oa.Code, ok = unhexField(f[5]); !ok {
		return nil, false
	}
	if oa.CodeMetadata, ok = unhexField(f[6]); !ok {
		return nil, false
	}
	switch f[7] {
	case "n":
		oa.CodeDeployerAddress = nil
	case "-":
		oa.CodeDeployerAddress = []byte{}
	default:
		if oa.CodeDeployerAddress, ok = unhexField(f[7]); !ok {
			return nil, false
		}
	}
	if f[8] != "" {
		for _, it := range strings.Split(f[8], ".") {
			v, ok := new(big.Int).SetString(it, 10)
			if !ok {
				return nil, false
			}
			oa.OutputTransfers = append(oa.OutputTransfers, vmcommon.OutputTransfer{Value: v})
		}
	}
	g, err := strconv.ParseUint(f[9], 10, 64)
	if err != nil {
		return nil, false
	}
	oa.GasUsed = g
	return oa, true
}

func fmtOA(oa *vmcommon.OutputAccount) string {
	st := []string{}
	keys := []string{}
	for k := range oa.StorageUpdates {
		keys = append(keys, k)
	}
	sort.Strings(keys)
	for _, k := range keys {
		u := oa.StorageUpdates[k]
		st = append(st, hx([]byte(k))+":"+hx(u.Offset)+":"+hx(u.Data))
	}
	dep := "n"
	if oa.CodeDeployerAddress != nil {
		dep = hx(oa.CodeDeployerAddress)
		if dep == "" {
			dep = "-"
		}
	}
	tr := []string{}
	for _, t := range oa.OutputTransfers {
		tr = append(tr, bigOrN(t.Value))
	}
	return strings.Join([]string{hx(oa.Address), strconv.FormatUint(oa.Nonce, 10), bigOrN(oa.Balance), bigOrN(oa.BalanceDelta),
		strings.Join(st, ","), hx(oa.Code), hx(oa.CodeMetadata), dep, strings.Join(tr, "."), strconv.FormatUint(oa.GasUsed, 10)}, ";")
}

func cloneOA(oa *vmcommon.OutputAccount) *vmcommon.OutputAccount {
	c, _ := parseOA(fmtOA(oa))
	// parse loses the nil/empty distinction of Address only (irrelevant: printed identically)
	return c
}

func equalOA(a, b *vmcommon.OutputAccount) bool {
	if fmtOA(a) != fmtOA(b) {
		return false
	}
	return bytes.Equal(a.Address, b.Address)
}

func opMergeSeq(_ *World, a []string) string {
	if len(a) < 1 {
		return obsBadOp
	}
	accs := make([]*vmcommon.OutputAccount, len(a))
	for i, s := range a {
		oa, ok := parseOA(s)
		if !ok {
			return obsBadOp
		}
		accs[i] = oa
	}
	clones := make([]*vmcommon.OutputAccount, len(a))
	// every merged-in account's transfer list gets spare capacity holding sentinels: a slice with room behind it, as the
	// slices of real callers have; "never mutates the account merged in" includes the memory behind its slice (taking the
	// slice over and appending to it later would write there)
	const spare = 3
	backing := make([][]vmcommon.OutputTransfer, len(a))
	for i := 1; i < len(accs); i++ {
		n := len(accs[i].OutputTransfers)
		if n > 0 {
			full := make([]vmcommon.OutputTransfer, n+spare)
			copy(full, accs[i].OutputTransfers)
			for j := n; j < n+spare; j++ {
				full[j] = vmcommon.OutputTransfer{Value: big.NewInt(-777 - int64(j))}
			}
			accs[i].OutputTransfers = full[:n]
			backing[i] = full
		}
		clones[i] = cloneOA(accs[i])
	}
	for i := 1; i < len(accs); i++ {
		accs[0].MergeOutputAccounts(accs[i])
	}
	bits := ""
	for i := 1; i < len(accs); i++ {
		same := equalOA(accs[i], clones[i])
		if full := backing[i]; full != nil {
			n := len(full) - spare
			for j := n; j < n+spare; j++ {
				if full[j].Value == nil || full[j].Value.Cmp(big.NewInt(-777-int64(j))) != 0 {
					same = false
				}
			}
		}
		if same {
			bits += "1"
		} else {
			bits += "0"
		}
	}
	return "ok " + fmtOA(accs[0]) + " u=" + bits
}
