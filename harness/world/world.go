// Package world executes the line protocol of /verif/PROTOCOL.md against the real
// elrond-vm-common code: one op line in, one canonical observation line out.
package world

import (
	"bytes"
	"math/big"
	"reflect"
	"sort"
	"strconv"
	"strings"

	vmcommon "github.com/ElrondNetwork/elrond-vm-common"
	"github.com/ElrondNetwork/elrond-vm-common/builtInFunctions"
)

// gasFactory is the part of the (unexported) factory type the harness keeps per shard.
type gasFactory interface {
	GasScheduleChange(gasSchedule map[string]map[string]uint64)
	CreateBuiltInFunctionContainer() (vmcommon.BuiltInFunctionContainer, error)
}

type shard struct {
	id        uint32
	accounts  *accountsAdapter
	coord     *coordinator
	notifier  *epochNotifier
	factory   gasFactory
	container vmcommon.BuiltInFunctionContainer
	// scratch builds ANOTHER factory with this shard's construction-time configuration (own notifier, own accounts)
	scratch func() (gasFactory, error)
}

// World is the whole multi-shard world plus the protocol session state (fault, trace, last call).
type World struct {
	shards  []*shard
	tr      *tracer
	payable *payableOracle
	// regEpoch: `notifier <epoch>` makes the notifiers of the worlds created AFTERWARDS confirm that epoch to every handler
	// at registration (nil: handlers hear from the notifier through `epoch` ops only)
	regEpoch *uint32
	fault    int // armed fault index for the next call op, -1 = none
	trace    bool
	last     *CallResult
	probe    *World // scratch world used by enccall
}

// New returns a session without a world: every op except `world` answers `noworld`.
func New() *World {
	w := &World{fault: -1}
	w.tr = newTracer()
	w.payable = &payableOracle{tr: w.tr, answers: map[string]int{}}
	return w
}

// --- accessors for generators ----------------------------------------------

// NumShards returns the number of shards (0 when there is no world).
func (w *World) NumShards() int { return len(w.shards) }

// ShardOf applies the protocol's shardOf with this world's shard count (1 when there is no world).
func (w *World) ShardOf(addr []byte) uint32 {
	n := len(w.shards)
	if n == 0 {
		n = 1
	}
	return ShardOf(addr, n)
}

// Present is the protocol's present(s, addr).
func (w *World) Present(shardID int, addr []byte) bool {
	if bytes.Equal(addr, vmcommon.SystemAccountAddress) {
		return true
	}
	if shardID >= 0 && shardID < len(w.shards) {
		return w.ShardOf(addr) == w.shards[shardID].coord.self // the metachain id while `selfmeta <shard> on`
	}
	return w.ShardOf(addr) == uint32(shardID)
}

// Accounts returns the stored accounts of a shard sorted by address. The objects are live: do not
// retain them across Exec calls (a rollback replaces them).
func (w *World) Accounts(shardID int) []*Account {
	if shardID < 0 || shardID >= len(w.shards) {
		return nil
	}
	return w.shards[shardID].accounts.sorted()
}

// Account returns the stored account of addr on a shard, or nil.
func (w *World) Account(shardID int, addr []byte) *Account {
	if shardID < 0 || shardID >= len(w.shards) {
		return nil
	}
	return w.shards[shardID].accounts.m[string(addr)]
}

// Container gives access to the real container of a shard (nil when out of range).
func (w *World) Container(shardID int) vmcommon.BuiltInFunctionContainer {
	if shardID < 0 || shardID >= len(w.shards) {
		return nil
	}
	return w.shards[shardID].container
}

// CopyAccountsFrom replaces the account states of every shard by deep copies of src's (same shard count required). Used
// to give a freshly constructed world — fresh factory, container and function objects — the state of a running one.
func (w *World) CopyAccountsFrom(src *World) bool {
	if len(w.shards) != len(src.shards) {
		return false
	}
	for i, sh := range src.shards {
		m := make(map[string]*Account, len(sh.accounts.m))
		for k, acc := range sh.accounts.m {
			c := acc.clone()
			c.tr = w.tr
			m[k] = c
		}
		w.shards[i].accounts.m = m
	}
	return true
}

// LastCall returns the parsed result of the most recent call op (nil before the first one).
func (w *World) LastCall() *CallResult { return w.last }

// Tracing reports whether `trace 1` is in force.
func (w *World) Tracing() bool { return w.trace }

// ---------------------------------------------------------------------------
// Exec
// ---------------------------------------------------------------------------

const (
	obsBadOp   = "badop"
	obsNoWorld = "noworld"
	obsPanic   = "panic"
)

// Exec executes ONE op line and returns ONE observation line (without newline). It never panics.
func (w *World) Exec(line string) (obs string) {
	defer func() {
		if r := recover(); r != nil {
			w.tr.end()
			obs = obsPanic
		}
	}()

	line = strings.TrimRight(line, "\r\n")
	if line == "" || line[0] == '#' {
		return "#"
	}
	toks := strings.Split(line, " ")
	op, args := toks[0], toks[1:]

	if op == "world" {
		return w.opWorld(args)
	}
	if op == "notifier" {
		return w.opNotifier(args)
	}
	if len(w.shards) == 0 {
		return obsNoWorld
	}
	switch op {
	case "payable":
		return w.opPayable(args)
	case "raw":
		return w.opRaw(args)
	case "acct":
		return w.opAcct(args)
	case "selfmeta":
		return w.opSelfMeta(args)
	case "selfas":
		return w.opSelfAs(args)
	case "aliasing":
		if len(args) != 1 || (args[0] != "on" && args[0] != "off") {
			return obsBadOp
		}
		w.tr.alias = args[0] == "on"
		return "aliasing ok"
	case "epoch":
		return w.opEpoch(args)
	case "gasmap":
		return w.opGasmap(args)
	case "active":
		return w.opActive(args)
	case "registry":
		return w.opRegistry(args)
	case "fault":
		return w.opFault(args)
	case "trace":
		return w.opTrace(args)
	case "dump":
		return w.opDump(args)
	case "call":
		return w.opCall(args)
	}
	if f, ok := pureOps[op]; ok {
		return f(w, args)
	}
	return obsBadOp
}

// --- world -----------------------------------------------------------------

func parseGasmap(tok string) (map[string]map[string]uint64, bool) {
	m := map[string]map[string]uint64{}
	if tok == "-" {
		return m, true
	}
	for _, item := range strings.Split(tok, ",") {
		eq := strings.IndexByte(item, '=')
		if eq < 0 {
			return nil, false
		}
		dot := strings.IndexByte(item[:eq], '.')
		if dot < 0 {
			return nil, false
		}
		table, field := item[:dot], item[dot+1:eq]
		v, ok := parseU64(item[eq+1:])
		if !ok {
			return nil, false
		}
		if m[table] == nil {
			m[table] = map[string]uint64{}
		}
		m[table][field] = v
	}
	return m, true
}

func (w *World) opWorld(a []string) string {
	if len(a) != 5 {
		return obsBadOp
	}
	n, ok := parseU64(a[0])
	if !ok || n < 1 || n > 3 {
		return obsBadOp
	}
	if a[1] != "0" && a[1] != "1" {
		return obsBadOp
	}
	epoch, ok := parseU64(a[2])
	if !ok || epoch > 0xFFFFFFFF {
		return obsBadOp
	}
	dns := map[string]struct{}{}
	if a[3] != "-" {
		for _, t := range strings.Split(a[3], ",") {
			b, ok := unhex(t)
			if !ok {
				return obsBadOp
			}
			dns[string(b)] = struct{}{}
		}
	}
	gas, ok := parseGasmap(a[4])
	if !ok {
		return obsBadOp
	}

	// Resets everything.
	w.shards = nil
	w.tr = newTracer()
	w.payable = &payableOracle{tr: w.tr, answers: map[string]int{}}
	w.fault = -1
	w.trace = false
	w.last = nil

	shards := make([]*shard, 0, n)
	for s := 0; s < int(n); s++ {
		sh, err := w.newShard(uint32(s), int(n), a[1] == "1", uint32(epoch), dns, gas)
		if err != nil {
			return "world err"
		}
		shards = append(shards, sh)
	}
	w.shards = shards
	return "world ok"
}

func copyGasmap(g map[string]map[string]uint64) map[string]map[string]uint64 {
	c := make(map[string]map[string]uint64, len(g))
	for t, fields := range g {
		c[t] = make(map[string]uint64, len(fields))
		for f, v := range fields {
			c[t][f] = v
		}
	}
	return c
}

func (w *World) newShard(id uint32, nshards int, nameChange bool, activationEpoch uint32,
	dns map[string]struct{}, gas map[string]map[string]uint64) (*shard, error) {

	sh := &shard{
		id:       id,
		accounts: newAdapter(w.tr),
		coord:    &coordinator{self: id, nshards: nshards},
		notifier: &epochNotifier{onRegister: w.regEpoch},
	}
	dnsCopy := make(map[string]struct{}, len(dns))
	for k := range dns {
		dnsCopy[k] = struct{}{}
	}
	f, err := builtInFunctions.NewBuiltInFunctionsFactory(builtInFunctions.ArgsCreateBuiltInFunctionContainer{
		GasMap:                              copyGasmap(gas),
		MapDNSAddresses:                     dnsCopy,
		EnableUserNameChange:                nameChange,
		Marshalizer:                         &tracedMarshalizer{tr: w.tr},
		Accounts:                            sh.accounts,
		ShardCoordinator:                    sh.coord,
		EpochNotifier:                       sh.notifier,
		ESDTNFTImprovementV1ActivationEpoch: activationEpoch,
	})
	if err != nil {
		return nil, err
	}
	sh.factory = f
	sh.scratch = func() (gasFactory, error) {
		d2 := make(map[string]struct{}, len(dns))
		for k := range dns {
			d2[k] = struct{}{}
		}
		return builtInFunctions.NewBuiltInFunctionsFactory(builtInFunctions.ArgsCreateBuiltInFunctionContainer{
			GasMap:                              copyGasmap(gas),
			MapDNSAddresses:                     d2,
			EnableUserNameChange:                nameChange,
			Marshalizer:                         &tracedMarshalizer{tr: newTracer()},
			Accounts:                            newAdapter(newTracer()),
			ShardCoordinator:                    &coordinator{self: id, nshards: nshards},
			EpochNotifier:                       &epochNotifier{},
			ESDTNFTImprovementV1ActivationEpoch: activationEpoch,
		})
	}
	sh.container, err = f.CreateBuiltInFunctionContainer()
	if err != nil {
		return nil, err
	}
	err = builtInFunctions.SetPayableHandler(sh.container, w.payable)
	if err != nil {
		return nil, err
	}
	return sh, nil
}

// --- simple ops ------------------------------------------------------------

func (w *World) shardArg(tok string) (*shard, bool) {
	n, ok := parseU64(tok)
	if !ok || n >= uint64(len(w.shards)) {
		return nil, false
	}
	return w.shards[n], true
}

// shardsArg resolves `<shard|*>`.
func (w *World) shardsArg(tok string) ([]*shard, bool) {
	if tok == "*" {
		return w.shards, true
	}
	sh, ok := w.shardArg(tok)
	if !ok {
		return nil, false
	}
	return []*shard{sh}, true
}

func (w *World) opPayable(a []string) string {
	if len(a) != 2 {
		return obsBadOp
	}
	addr, ok := unhex(a[0])
	if !ok {
		return obsBadOp
	}
	switch a[1] {
	case "yes":
		delete(w.payable.answers, string(addr))
	case "no":
		w.payable.answers[string(addr)] = payNo
	case "err":
		w.payable.answers[string(addr)] = payErr
	default:
		return obsBadOp
	}
	return "payable ok"
}

func (w *World) opRaw(a []string) string {
	if len(a) != 4 {
		return obsBadOp
	}
	sh, ok := w.shardArg(a[0])
	if !ok {
		return obsBadOp
	}
	addr, ok1 := unhex(a[1])
	key, ok2 := unhex(a[2])
	val, ok3 := unhex(a[3])
	if !ok1 || !ok2 || !ok3 {
		return obsBadOp
	}
	sh.accounts.getOrCreate(addr).rawWrite(key, val)
	return "raw ok"
}

func (w *World) opAcct(a []string) string {
	if len(a) != 4 {
		return obsBadOp
	}
	sh, ok := w.shardArg(a[0])
	if !ok {
		return obsBadOp
	}
	addr, ok := unhex(a[1])
	if !ok {
		return obsBadOp
	}
	switch a[2] {
	case "owner", "name":
		v, ok := unhex(a[3])
		if !ok {
			return obsBadOp
		}
		acc := sh.accounts.getOrCreate(addr)
		if a[2] == "owner" {
			acc.owner = append([]byte(nil), v...)
		} else {
			acc.name = append([]byte(nil), v...)
		}
	case "reward", "balance":
		v, ok := parseBig(a[3])
		if !ok {
			return obsBadOp
		}
		acc := sh.accounts.getOrCreate(addr)
		if a[2] == "reward" {
			acc.reward = v
		} else {
			acc.balance = v
		}
	default:
		return obsBadOp
	}
	return "acct ok"
}

// epoch <shards> <n> [timestamp]: the notifier of each selected shard confirms epoch n (with the given timestamp, default 0).
func (w *World) opEpoch(a []string) string {
	if len(a) != 2 && len(a) != 3 {
		return obsBadOp
	}
	shs, ok := w.shardsArg(a[0])
	if !ok {
		return obsBadOp
	}
	n, ok := parseU64(a[1])
	if !ok || n > 0xFFFFFFFF {
		return obsBadOp
	}
	ts := uint64(0)
	if len(a) == 3 {
		if ts, ok = parseU64(a[2]); !ok {
			return obsBadOp
		}
	}
	for _, sh := range shs {
		sh.notifier.confirm(uint32(n), ts)
	}
	return "epoch ok"
}

func (w *World) opGasmap(a []string) string {
	if len(a) != 2 {
		return obsBadOp
	}
	shs, ok := w.shardsArg(a[0])
	if !ok {
		return obsBadOp
	}
	gas, ok := parseGasmap(a[1])
	if !ok {
		return obsBadOp
	}
	for _, sh := range shs {
		sh.factory.GasScheduleChange(copyGasmap(gas))
	}
	return "gasmap ok"
}

func (w *World) opActive(a []string) string {
	if len(a) != 2 {
		return obsBadOp
	}
	sh, ok := w.shardArg(a[0])
	if !ok {
		return obsBadOp
	}
	f, err := sh.container.Get(a[1])
	if err != nil {
		return "active nofunc"
	}
	if f.IsActive() {
		return "active 1"
	}
	return "active 0"
}

func (w *World) opRegistry(a []string) string {
	if len(a) == 2 && a[1] == "second" {
		return w.opRegistrySecond(a[0])
	}
	if len(a) != 1 {
		return obsBadOp
	}
	sh, ok := w.shardArg(a[0])
	if !ok {
		return obsBadOp
	}
	keys := sh.container.Keys()
	names := make([]string, 0, len(keys))
	for k := range keys {
		names = append(names, k)
	}
	sort.Strings(names)
	return "registry " + strings.Join(names, ",")
}

// opRegistrySecond: `registry <shard> second` - every container a factory builds is the complete, correctly bound
// registry, whatever was done to the containers it built before.  A scratch factory with the shard's configuration builds
// a first container; the holder of that one removes a function and replaces another (both are part of the container's
// interface); then the factory builds a second container, which is observed: its sorted key set, and how many of its keys
// are bound to an object of the same type as in the shard's live container.
func (w *World) opRegistrySecond(tok string) string {
	sh, ok := w.shardArg(tok)
	if !ok {
		return obsBadOp
	}
	f, err := sh.scratch()
	if err != nil {
		return "registry err"
	}
	c1, err := f.CreateBuiltInFunctionContainer()
	if err != nil {
		return "registry err"
	}
	if other, err := c1.Get("ClaimDeveloperRewards"); err == nil {
		_ = c1.Replace("ESDTTransfer", other)
	}
	c1.Remove("ESDTNFTCreate")
	c1.Remove("SaveKeyValue")
	c2, err := f.CreateBuiltInFunctionContainer()
	if err != nil {
		return "registry err"
	}
	keys := c2.Keys()
	names := make([]string, 0, len(keys))
	bound := 0
	for k := range keys {
		names = append(names, k)
		x, err1 := c2.Get(k)
		y, err2 := sh.container.Get(k)
		if err1 == nil && err2 == nil && reflect.TypeOf(x) == reflect.TypeOf(y) {
			bound++
		}
	}
	sort.Strings(names)
	return "registry " + strings.Join(names, ",") + " bound=" + strconv.Itoa(bound)
}

// opNotifier: `notifier <epoch>` / `notifier off` - see World.regEpoch. Works without a world (it configures the next one).
func (w *World) opNotifier(a []string) string {
	if len(a) != 1 {
		return obsBadOp
	}
	if a[0] == "off" {
		w.regEpoch = nil
		return "notifier ok"
	}
	e, ok := parseU64(a[0])
	if !ok || e > 0xFFFFFFFF {
		return obsBadOp
	}
	e32 := uint32(e)
	w.regEpoch = &e32
	return "notifier ok"
}

// opSelfMeta: `selfmeta <shard> on|off` - the node of this shard becomes (stops being) a METACHAIN node: its coordinator
// answers SelfId() = the metachain id, so the accounts that "live here" are the metachain's (contracts whose address ends in
// the metachain identifier) and the shard's ordinary accounts are elsewhere. State is kept as it is.
func (w *World) opSelfMeta(a []string) string {
	if len(a) != 2 || (a[1] != "on" && a[1] != "off") {
		return obsBadOp
	}
	sh, ok := w.shardArg(a[0])
	if !ok {
		return obsBadOp
	}
	if a[1] == "on" {
		sh.coord.self = vmcommon.MetachainShardId
	} else {
		sh.coord.self = sh.id
	}
	return "selfmeta ok"
}

// opSelfAs: `selfas <node> <id|own>` - the node is reassigned to serve shard <id> (its coordinator answers SelfId() = id
// from now on, IN PLACE: container and function objects are the ones built before); `own` gives it its own shard back.
func (w *World) opSelfAs(a []string) string {
	if len(a) != 2 {
		return obsBadOp
	}
	sh, ok := w.shardArg(a[0])
	if !ok {
		return obsBadOp
	}
	if a[1] == "own" {
		sh.coord.self = sh.id
		return "selfas ok"
	}
	n, ok := parseU64(a[1])
	if !ok || n >= uint64(len(w.shards)) {
		return obsBadOp
	}
	sh.coord.self = uint32(n)
	return "selfas ok"
}

func (w *World) opFault(a []string) string {
	if len(a) != 1 {
		return obsBadOp
	}
	k, ok := parseU64(a[0])
	if !ok || k > 1<<31 {
		return obsBadOp
	}
	w.fault = int(k)
	return "fault ok"
}

func (w *World) opTrace(a []string) string {
	if len(a) != 1 || (a[0] != "0" && a[0] != "1") {
		return obsBadOp
	}
	w.trace = a[0] == "1"
	return "trace ok"
}

// --- token helpers ----------------------------------------------------------

func parseU64(tok string) (uint64, bool) {
	if tok == "" || tok[0] == '+' || tok[0] == '-' {
		return 0, false
	}
	v, err := strconv.ParseUint(tok, 10, 64)
	return v, err == nil
}

func parseBig(tok string) (*big.Int, bool) {
	if tok == "" || tok[0] == '+' {
		return nil, false
	}
	return new(big.Int).SetString(tok, 10)
}
