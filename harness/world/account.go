package world

import (
	"bytes"
	"errors"
	"math/big"
	"sort"

	vmcommon "github.com/ElrondNetwork/elrond-vm-common"
)

var (
	errInsufficientBalance = errors.New("verif: balance would become negative")
	errNotOwner            = errors.New("verif: caller is not the owner")
	errBadOwnerLength      = errors.New("verif: new owner has a wrong length")
	errNotFound            = errors.New("verif: account not found")
	errBadAccount          = errors.New("verif: not an account of this world")
)

// Account implements vmcommon.UserAccountHandler and vmcommon.AccountDataHandler (PROTOCOL §1).
type Account struct {
	addr    []byte
	storage map[string][]byte
	balance *big.Int
	reward  *big.Int
	owner   []byte
	name    []byte
	tr      *tracer
}

func newAccount(addr []byte, tr *tracer) *Account {
	return &Account{
		addr:    append([]byte{}, addr...),
		storage: map[string][]byte{},
		balance: new(big.Int),
		reward:  new(big.Int),
		tr:      tr,
	}
}

func (a *Account) clone() *Account {
	c := &Account{
		addr:    a.addr, // never mutated
		storage: make(map[string][]byte, len(a.storage)),
		balance: new(big.Int).Set(a.balance),
		reward:  new(big.Int).Set(a.reward),
		owner:   append([]byte(nil), a.owner...),
		name:    append([]byte(nil), a.name...),
		tr:      a.tr,
	}
	for k, v := range a.storage {
		if a.tr != nil && a.tr.alias {
			c.storage[k] = append([]byte{}, v...) // aliasing world: the code under test may write into stored slices
		} else {
			c.storage[k] = v // values are replaced, never mutated in place
		}
	}
	return c
}

// --- inspection (for generators) -------------------------------------------

// Address returns a copy of the account address.
func (a *Account) Address() []byte { return append([]byte{}, a.addr...) }

// Storage returns a deep copy of the storage.
func (a *Account) Storage() map[string][]byte {
	m := make(map[string][]byte, len(a.storage))
	for k, v := range a.storage {
		m[k] = append([]byte{}, v...)
	}
	return m
}

// Value returns a copy of the value stored under key (nil when absent).
func (a *Account) Value(key []byte) []byte { return append([]byte(nil), a.storage[string(key)]...) }

// Balance returns a copy of the balance.
func (a *Account) Balance() *big.Int { return new(big.Int).Set(a.balance) }

// Reward returns a copy of the developer reward.
func (a *Account) Reward() *big.Int { return new(big.Int).Set(a.reward) }

// Owner returns a copy of the owner address.
func (a *Account) Owner() []byte { return append([]byte{}, a.owner...) }

// Name returns a copy of the user name.
func (a *Account) Name() []byte { return append([]byte{}, a.name...) }

// IsEmpty tells whether every slot of the account is empty (such accounts are invisible in diff and dump).
func (a *Account) IsEmpty() bool {
	return len(a.storage) == 0 && a.balance.Sign() == 0 && a.reward.Sign() == 0 && len(a.owner) == 0 && len(a.name) == 0
}

// --- vmcommon.UserAccountHandler -------------------------------------------

func (a *Account) GetCodeMetadata() []byte { return nil }
func (a *Account) GetCodeHash() []byte     { return nil }
func (a *Account) GetRootHash() []byte     { return nil }

func (a *Account) AccountDataHandler() vmcommon.AccountDataHandler { return a }

func (a *Account) AddToBalance(value *big.Int) error {
	if err := a.tr.hit(depBalance); err != nil {
		return err
	}
	n := new(big.Int).Add(a.balance, value)
	if n.Sign() < 0 {
		return errInsufficientBalance
	}
	a.balance = n
	return nil
}

func (a *Account) GetBalance() *big.Int { return new(big.Int).Set(a.balance) }

func (a *Account) ClaimDeveloperRewards(caller []byte) (*big.Int, error) {
	if err := a.tr.hit(depClaim); err != nil {
		return nil, err
	}
	if !bytes.Equal(caller, a.owner) {
		return nil, errNotOwner
	}
	out := a.reward
	a.reward = new(big.Int)
	return out, nil
}

func (a *Account) GetDeveloperReward() *big.Int { return new(big.Int).Set(a.reward) }

func (a *Account) ChangeOwnerAddress(caller []byte, newOwner []byte) error {
	if err := a.tr.hit(depOwner); err != nil {
		return err
	}
	if !bytes.Equal(caller, a.owner) {
		return errNotOwner
	}
	if len(newOwner) != len(a.addr) {
		return errBadOwnerLength
	}
	a.owner = append([]byte(nil), newOwner...)
	return nil
}

func (a *Account) SetOwnerAddress(owner []byte) { a.owner = append([]byte(nil), owner...) }
func (a *Account) GetOwnerAddress() []byte      { return append([]byte(nil), a.owner...) }
func (a *Account) SetUserName(name []byte)      { a.name = append([]byte(nil), name...) }
func (a *Account) GetUserName() []byte          { return append([]byte(nil), a.name...) }

// --- vmcommon.AccountHandler -----------------------------------------------

func (a *Account) AddressBytes() []byte { return append([]byte{}, a.addr...) }
func (a *Account) IncreaseNonce(uint64) {}
func (a *Account) GetNonce() uint64     { return 0 }
func (a *Account) IsInterfaceNil() bool { return a == nil }

// --- vmcommon.AccountDataHandler -------------------------------------------

// RetrieveValue is a storage read: not counted, never faulted.
func (a *Account) RetrieveValue(key []byte) ([]byte, error) {
	if a.tr != nil && a.tr.alias {
		return a.storage[string(key)], nil
	}
	return append([]byte(nil), a.storage[string(key)]...), nil
}

func (a *Account) SaveKeyValue(key []byte, value []byte) error {
	if err := a.tr.hit(depWrite); err != nil {
		return err
	}
	a.rawWrite(key, value)
	return nil
}

func (a *Account) rawWrite(key []byte, value []byte) {
	if len(value) == 0 {
		delete(a.storage, string(key))
		return
	}
	if a.tr != nil && a.tr.alias {
		a.storage[string(key)] = value
		return
	}
	a.storage[string(key)] = append([]byte{}, value...)
}

// ---------------------------------------------------------------------------
// accounts adapter (one per shard)
// ---------------------------------------------------------------------------

type accountsAdapter struct {
	m  map[string]*Account
	tr *tracer
}

func newAdapter(tr *tracer) *accountsAdapter {
	return &accountsAdapter{m: map[string]*Account{}, tr: tr}
}

// getOrCreate is the harness' own access (not a dependency call of the code under test).
func (a *accountsAdapter) getOrCreate(address []byte) *Account {
	acc, ok := a.m[string(address)]
	if !ok {
		acc = newAccount(address, a.tr)
		a.m[string(address)] = acc
	}
	return acc
}

func (a *accountsAdapter) snapshot() map[string]*Account {
	m := make(map[string]*Account, len(a.m))
	for k, acc := range a.m {
		m[k] = acc.clone()
	}
	return m
}

func (a *accountsAdapter) sorted() []*Account {
	keys := make([]string, 0, len(a.m))
	for k := range a.m {
		keys = append(keys, k)
	}
	sort.Strings(keys)
	out := make([]*Account, len(keys))
	for i, k := range keys {
		out[i] = a.m[k]
	}
	return out
}

func (a *accountsAdapter) GetExistingAccount(address []byte) (vmcommon.AccountHandler, error) {
	acc, ok := a.m[string(address)]
	if !ok {
		return nil, errNotFound
	}
	return acc, nil
}

// LoadAccount returns the stored object itself; an unknown address yields a fresh empty account
// which enters the account set only through SaveAccount.
func (a *accountsAdapter) LoadAccount(address []byte) (vmcommon.AccountHandler, error) {
	if !a.tr.softLoad(address) {
		if err := a.tr.hit(depLoad); err != nil {
			return nil, err
		}
	}
	acc, ok := a.m[string(address)]
	if !ok {
		acc = newAccount(address, a.tr)
	}
	return acc, nil
}

func (a *accountsAdapter) SaveAccount(account vmcommon.AccountHandler) error {
	if err := a.tr.hit(depSave); err != nil {
		return err
	}
	acc, ok := account.(*Account)
	if !ok || acc == nil {
		return errBadAccount
	}
	a.m[string(acc.addr)] = acc
	return nil
}

func (a *accountsAdapter) RemoveAccount([]byte) error { return nil }
func (a *accountsAdapter) Commit() ([]byte, error)    { return nil, nil }
func (a *accountsAdapter) JournalLen() int            { return 0 }
func (a *accountsAdapter) RevertToSnapshot(int) error { return nil }
func (a *accountsAdapter) GetNumCheckpoints() uint32  { return 0 }
func (a *accountsAdapter) GetCode([]byte) []byte      { return nil }
func (a *accountsAdapter) RootHash() ([]byte, error)  { return nil, nil }
func (a *accountsAdapter) RecreateTrie([]byte) error  { return nil }
func (a *accountsAdapter) IsInterfaceNil() bool       { return a == nil }
