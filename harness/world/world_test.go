package world

import (
	"bytes"
	"io/ioutil"
	"strings"
	"testing"

	vmcommon "github.com/ElrondNetwork/elrond-vm-common"
)

func lines(t *testing.T, path string) []string {
	b, err := ioutil.ReadFile(path)
	if err != nil {
		t.Fatal(err)
	}
	return strings.Split(strings.TrimSuffix(string(b), "\n"), "\n")
}

// The sample replayed through the library entry point must give the recorded observations.
func TestSampleReplay(t *testing.T) {
	ops := lines(t, "../testdata/sample.ops")
	obs := lines(t, "../testdata/sample.obs")
	if len(ops) != len(obs) {
		t.Fatalf("%d ops, %d observations", len(ops), len(obs))
	}
	w := New()
	for i, op := range ops {
		if got := w.Exec(op); got != obs[i] {
			t.Fatalf("line %d: %q\n got  %q\n want %q", i+1, op, got, obs[i])
		}
	}
}

func TestAccessors(t *testing.T) {
	w := New()
	if w.NumShards() != 0 || w.Exec("dump 0") != "noworld" {
		t.Fatal("fresh session must have no world")
	}
	ops := lines(t, "../testdata/sample.ops")
	for _, op := range ops {
		if strings.HasPrefix(op, "# --- ESDTTransfer to a contract") {
			break
		}
		w.Exec(op)
	}
	if w.NumShards() != 2 {
		t.Fatalf("shards: %d", w.NumShards())
	}
	u0 := append(bytes.Repeat([]byte{1}, 31), 0)
	u1 := append(bytes.Repeat([]byte{1}, 31), 1)
	if w.ShardOf(u0) != 0 || w.ShardOf(u1) != 1 || w.ShardOf(vmcommon.ESDTSCAddress) != vmcommon.MetachainShardId {
		t.Fatal("ShardOf")
	}
	if !w.Present(0, u0) || w.Present(1, u0) || !w.Present(0, vmcommon.SystemAccountAddress) || !w.Present(1, vmcommon.SystemAccountAddress) {
		t.Fatal("Present")
	}
	accs := w.Accounts(0)
	if len(accs) == 0 {
		t.Fatal("no accounts")
	}
	for i := 1; i < len(accs); i++ {
		if bytes.Compare(accs[i-1].Address(), accs[i].Address()) >= 0 {
			t.Fatal("accounts not sorted")
		}
	}
	a := w.Account(0, u0)
	if a == nil || len(a.Storage()) == 0 || a.Balance().Int64() != 1000 {
		t.Fatal("account u0")
	}
	st := a.Storage()
	for k := range st {
		st[k][0] ^= 0xff // must be a copy
	}
	if bytes.Equal(a.Storage()["ELRONDesdtFUN-aaaaaa"], st["ELRONDesdtFUN-aaaaaa"]) {
		t.Fatal("Storage() is not a copy")
	}
	last := w.LastCall()
	if last == nil || last.Status != "ok" || last.Out == nil || last.Err != nil || len(last.Diff) != 1 || last.Deps == "" {
		t.Fatalf("last call: %+v", last)
	}
	if got := w.FormatCall(last); !strings.HasPrefix(got, "R ok ; gas=0 ; ") || strings.Contains(got, "deps=") {
		t.Fatal(got)
	}
}
