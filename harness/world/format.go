package world

import (
	"encoding/hex"
	"errors"
	"math/big"
	"strings"
)

// unhex parses a space-separated byte-string token: `-` is the empty (non-nil) string, otherwise hex.
// The empty token is not a byte string.
func unhex(tok string) ([]byte, bool) {
	if tok == "-" {
		return []byte{}, true
	}
	if tok == "" {
		return nil, false
	}
	b, err := hex.DecodeString(tok)
	if err != nil {
		return nil, false
	}
	return b, true
}

// unhexField parses a byte string that sits between separators inside a compound token:
// nothing (or `-`) is the empty string.
func unhexField(tok string) ([]byte, bool) {
	if tok == "" || tok == "-" {
		return []byte{}, true
	}
	b, err := hex.DecodeString(tok)
	if err != nil {
		return nil, false
	}
	return b, true
}

// unhexList parses `<b><sep><b>...`: nothing is the empty list, an item `-` is an empty item.
func unhexList(tok string, sep string) ([][]byte, bool) {
	out := make([][]byte, 0)
	if tok == "" {
		return out, true
	}
	for _, t := range strings.Split(tok, sep) {
		b, ok := unhex(t)
		if !ok {
			return nil, false
		}
		out = append(out, b)
	}
	return out, true
}

// hx renders a byte string that sits between separators: empty = nothing.
func hx(b []byte) string { return hex.EncodeToString(b) }

// hxTok renders a byte string that is a whole space-separated token: empty = `-`.
func hxTok(b []byte) string {
	if len(b) == 0 {
		return "-"
	}
	return hex.EncodeToString(b)
}

// hxList renders a list: empty list = nothing, empty item = `-`.
func hxList(items [][]byte, sep string) string {
	if len(items) == 0 {
		return ""
	}
	parts := make([]string, len(items))
	for i, it := range items {
		parts[i] = hxTok(it)
	}
	return strings.Join(parts, sep)
}

// bigOrN renders a big integer in decimal, `n` for a nil pointer.
func bigOrN(v *big.Int) string {
	if v == nil {
		return "n"
	}
	return v.String()
}

// ErrKind maps an error to the protocol's <kind>.
func ErrKind(err error) string {
	if errors.Is(err, ErrInjected) {
		return "Injected"
	}
	for i := range errTable {
		if errors.Is(err, errTable[i].err) {
			return errTable[i].kind
		}
	}
	return "Other"
}
