package world

import "strings"

// Additive helpers for the oracle and the generator (package oracle, cmd/gen). Nothing here is
// reachable from an op line: the protocol behaviour of Exec is unchanged.

// ParseCallLine parses a whole `call …` op line exactly like Exec does. ok is false when there is
// no world, the op is not `call`, or Exec would answer `badop`.
func (w *World) ParseCallLine(line string) (*Call, bool) {
	line = strings.TrimRight(line, "\r\n")
	toks := strings.Split(line, " ")
	if len(toks) == 0 || toks[0] != "call" || len(w.shards) == 0 {
		return nil, false
	}
	return w.parseCall(toks[1:])
}

// Probe executes a call on the current state and ALWAYS rolls the shard back, whatever the
// outcome. It neither consumes an armed fault nor becomes LastCall. faultAt < 0 means no fault.
// Generators use it to learn whether (and at what charge, with which dependency trace) a candidate
// call would succeed before they emit it.
func (w *World) Probe(c *Call, faultAt int) *CallResult {
	if c == nil || c.Shard < 0 || c.Shard >= len(w.shards) || c.CallValue == nil {
		return &CallResult{Status: obsBadOp}
	}
	sh := w.shards[c.Shard]
	snap := sh.accounts.snapshot()
	res := sh.run(w, c, faultAt)
	sh.accounts.m = snap
	return res
}

// ForEach calls f for every storage entry of the account (no copies: f must not modify or retain val).
func (a *Account) ForEach(f func(key string, val []byte)) {
	for k, v := range a.storage {
		f(k, v)
	}
}

// Get returns the stored value without copying (nil when absent); the caller must not modify it.
func (a *Account) Get(key string) []byte { return a.storage[key] }

// NumKeys is the number of storage entries.
func (a *Account) NumKeys() int { return len(a.storage) }

// FaultArmed returns the armed fault index for the next call op (-1 = none).
func (w *World) FaultArmed() int { return w.fault }
