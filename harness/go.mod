module verifharness

go 1.13

require (
	github.com/ElrondNetwork/elrond-vm-common v0.0.0
	github.com/anishathalye/porcupine v1.3.0
)

replace github.com/ElrondNetwork/elrond-vm-common => /repo

replace github.com/gogo/protobuf => github.com/ElrondNetwork/protobuf v1.3.2
