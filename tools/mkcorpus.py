#!/usr/bin/env python3
"""Writes /verif/corpus/*.ops: minimal regression histories for the nine defects repaired in /repo (F1–F9) and a few
hand-picked boundary histories.  The corpus runs first in every check (model vs code on all fields + oracles)."""
import os
H = lambda s: s.encode().hex()
GAS = ("BaseOperationCost.StorePerByte=19,BaseOperationCost.ReleasePerByte=73,BaseOperationCost.DataCopyPerByte=101,"
       "BaseOperationCost.PersistPerByte=17,BaseOperationCost.CompilePerByte=31,BaseOperationCost.AoTPreparePerByte=59,"
       "BuiltInCost.ChangeOwnerAddress=2237,BuiltInCost.ClaimDeveloperRewards=2239,BuiltInCost.SaveUserName=2243,"
       "BuiltInCost.SaveKeyValue=2251,BuiltInCost.ESDTTransfer=2267,BuiltInCost.ESDTBurn=2269,BuiltInCost.ESDTLocalMint=2273,"
       "BuiltInCost.ESDTLocalBurn=2281,BuiltInCost.ESDTNFTCreate=2287,BuiltInCost.ESDTNFTAddQuantity=2293,"
       "BuiltInCost.ESDTNFTBurn=2297,BuiltInCost.ESDTNFTTransfer=2309,BuiltInCost.ESDTNFTChangeCreateOwner=2311,"
       "BuiltInCost.ESDTNFTMultiTransfer=2333,BuiltInCost.ESDTNFTAddURI=2339,BuiltInCost.ESDTNFTUpdateAttributes=2341")
SYS = "000000000000000000010000000000000000000000000000000000000002ffff"
def addr(b, shard): return ("%02x" % b) * 31 + "%02x" % shard
A0, B0, C1 = addr(0x11, 0), addr(0x22, 0), addr(0x33, 1)
TOK, NFT = H("TOK-aaaaaa"), H("NFT-bbbbbb")
G = "1000000"
def call(shard, fn, caller, rcv, *args, gas=G, ct=0, rae=0, val=0):
    return ("call %d %s %s %s %s 0 %d %d %d %s" % (shard, fn, caller, rcv, gas, ct, rae, val, " ".join(args))).rstrip()
def world(n=2): return "world %d 0 0 - %s\nepoch * 1" % (n, GAS)
def fungible(shard, a, tok, amount_hex):   # entry written through the protocol: mint with the role
    return [call(shard, "ESDTSetRole", SYS, a, tok, H("ESDTRoleLocalMint")),
            call(shard, "ESDTLocalMint", a, a, tok, amount_hex)]
def nft(shard, a, tok, qty="01"):
    return [call(shard, "ESDTSetRole", SYS, a, tok, H("ESDTRoleNFTCreate"), H("ESDTRoleNFTAddQuantity")),
            call(shard, "ESDTNFTCreate", a, a, tok, qty, H("name"), "00", H("hash"), H("attr"), H("uri"))]
files = {}
# F1: same-shard multi transfer of a fungible token to an account that already holds it must ADD
files["F1-multi-fungible-existing-holder"] = ("C01,C02,C15", [world()] + fungible(0, A0, TOK, "64") + fungible(0, B0, TOK, "07") + [
    call(0, "MultiESDTNFTTransfer", A0, A0, B0, "01", TOK, "-", "05"), "dump 0"])
# F2: destination side accepts the 4-argument message the sender side emits for one token
files["F2-multi-one-token-cross-shard"] = ("C01,C10", [world()] + fungible(0, A0, TOK, "64") + [
    call(0, "MultiESDTNFTTransfer", A0, A0, C1, "01", TOK, "-", "05"),
    "#@ deliver 0", call(1, "MultiESDTNFTTransfer", A0, C1, "01", TOK, "00", "05", gas="0"), "dump 1"])
# F3: destination side checks payability before crediting a fungible item
SC1 = "0000000000000000" + "0500" + "44" * 21 + "01"
files["F3-multi-dest-fungible-nonpayable"] = ("C09", [world(), "payable %s no" % SC1,
    call(1, "MultiESDTNFTTransfer", A0, SC1, "01", TOK, "-", "05"), "dump 1"])
# F4: wrapped token count (3n+2 mod 2^64 small) must be rejected, not makeslice-panic
WRAP = "5555555555555556"    # (2^64+2)/3
files["F4-multi-wrapped-count"] = ("C11", [world()] + fungible(0, A0, TOK, "64") + [
    call(0, "MultiESDTNFTTransfer", A0, A0, B0, WRAP, TOK, "-", "05"),
    call(1, "MultiESDTNFTTransfer", A0, C1, WRAP, TOK, "-", "05"),
    call(0, "MultiESDTNFTTransfer", A0, A0, B0, "ffffffffffffffff", TOK, "-", "05")])
# F5/F8: the transfer parser on the same count and on a destination-form NFT payload without a value
files["F5-F8-parser"] = ("C12,C10", [world(),
    "parseesdt %s %s %s %s %s %s - 05" % (A0, A0, H("MultiESDTNFTTransfer"), B0, WRAP, TOK),
    "parseesdt %s %s %s %s %s - 05" % (A0, C1, H("MultiESDTNFTTransfer"), WRAP, TOK),
    "parseesdt %s %s %s %s 01 01 -" % (A0, C1, H("ESDTNFTTransfer"), NFT),
    "parseesdt %s %s %s 01 %s 01 -" % (A0, C1, H("MultiESDTNFTTransfer"), NFT)])
# F6: aliasing spelling of a fungible key as (token, nonce): refused, no panic, no duplication
ALIAS_TOK, ALIAS_NONCE = H("TOK-aaaaa"), "61"   # "TOK-aaaaa" ‖ 0x61 = "TOK-aaaaaa"
files["F6-aliasing-key"] = ("C11,C01,C02", [world()] + fungible(0, A0, TOK, "64") + [
    call(0, "ESDTSetRole", SYS, A0, ALIAS_TOK, H("ESDTRoleNFTAddURI"), H("ESDTRoleNFTUpdateAttributes")),
    call(0, "ESDTNFTTransfer", A0, A0, ALIAS_TOK, ALIAS_NONCE, "05", B0),
    call(0, "ESDTNFTTransfer", A0, A0, ALIAS_TOK, ALIAS_NONCE, "05", C1),
    call(0, "ESDTNFTAddURI", A0, A0, ALIAS_TOK, ALIAS_NONCE, H("u")),
    call(0, "ESDTNFTUpdateAttributes", A0, A0, ALIAS_TOK, ALIAS_NONCE, H("x")),
    call(0, "MultiESDTNFTTransfer", A0, A0, B0, "01", ALIAS_TOK, ALIAS_NONCE, "05"), "dump 0"])
# F9: two real tokens whose keys alias (fungible "TOK-aaaaa\x01" and NFT collection "TOK-aaaaa", nonce 1): crediting the
# fungible one onto the NFT holder must be refused, not nil-dereference — same shard (inside the sender call) and as a
# delivery on another shard
F9_T, F9_F = H("TOK-aaaaa"), H("TOK-aaaaa") + "01"
A1 = addr(0x44, 1)
files["F9-aliasing-credit"] = ("C11", [world()] + nft(0, A0, F9_T) + fungible(0, B0, F9_F, "09") + [
    call(0, "MultiESDTNFTTransfer", B0, B0, A0, "01", F9_F, "-", "01"), "dump 0"] +
    nft(1, A1, F9_T) + [
    call(0, "MultiESDTNFTTransfer", B0, B0, A1, "01", F9_F, "-", "02"),
    "#@ deliver 0", call(1, "MultiESDTNFTTransfer", B0, A1, "01", F9_F, "00", "02", gas="0"), "dump 1"])
# F7: SaveKeyValue with gas 0 and an unchanged value must not wrap GasRemaining
files["F7-skv-zero-gas"] = ("C06,C16", [world(),
    call(0, "SaveKeyValue", A0, A0, H("k"), H("v")),
    call(0, "SaveKeyValue", A0, A0, H("k"), H("v"), gas="0"),
    call(0, "SaveKeyValue", A0, A0, H("k"), H("v"), gas="2250")])
# K1 (known finding, C16): a contract that owns another contract on its shard claims the developer rewards through an
# asynchronous call: all provided gas is consumed (GasRemaining 0, no output account); the direct call is priced normally
SCA0 = "0000000000000000" + "0500" + "55" * 21 + "00"
SCB0 = "0000000000000000" + "0500" + "66" * 21 + "00"
files["K1-claim-async-contract"] = ("C16", [world(), "acct 0 %s owner %s" % (SCB0, SCA0), "acct 0 %s reward 500" % SCB0,
    call(0, "ClaimDeveloperRewards", SCA0, SCB0, ct=1), "acct 0 %s reward 300" % SCB0,
    call(0, "ClaimDeveloperRewards", SCA0, SCB0, ct=0), "dump 0"])
# an NFT round trip: create, same-shard hop, cross-shard hop with delivery, add URI, burn
files["nft-roundtrip"] = ("C07,C08,C15,C01", [world()] + nft(0, A0, NFT, "03") + [
    call(0, "ESDTNFTTransfer", A0, A0, NFT, "01", "01", B0), "dump 0",
    call(0, "ESDTNFTTransfer", A0, A0, NFT, "01", "01", C1)])
os.makedirs("/verif/corpus", exist_ok=True)
for name, (props, lines) in files.items():
    with open("/verif/corpus/%s.ops" % name, "w") as f:
        f.write("#@ corpus props=%s\n" % props)
        for l in lines: f.write(l + "\n")
print("wrote", len(files), "corpus files")
