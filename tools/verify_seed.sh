#!/bin/bash
# usage: verify_seed.sh <seed-dir> <id>   — confirms a seeded change in a scratch worktree of /repo HEAD:
# (a) pristine+demo passes, (b) changed+demo fails, (c) changed + existing suite (demo removed) passes;
# then stores patch, demo and meta under /verif/seeded/<id>/. The worktree is removed afterwards.
set -u
export GOFLAGS=-mod=mod GOPROXY=off GOSUMDB=off GOTOOLCHAIN=local
SD="$(readlink -f "$1")"; ID="$2"
WT=/tmp/seedverify/$ID
mkdir -p /tmp/seedverify; git -C /repo worktree remove --force "$WT" 2>/dev/null; rm -rf "$WT"
git -C /repo worktree add -q --detach "$WT" HEAD || exit 2
cleanup() { git -C /repo worktree remove --force "$WT" 2>/dev/null; }
trap cleanup EXIT
cd "$WT"
ln -s "$(dirname "$SD")" _seed
CMD=$(python3 -c "import json,sys;print(json.load(open('$SD/meta.json'))['demo_cmd'])")
RUN() { (cd "$WT" && eval "$CMD") > /tmp/seedverify/$ID.$1.log 2>&1; echo $?; }
A=$(RUN a)
DEMOS=$(git status --porcelain | grep '^??' | awk '{print $2}' | grep '_test.go$')
git apply "$SD/patch.diff" || { echo "PATCH DOES NOT APPLY"; exit 3; }
go build ./... || { echo "DOES NOT BUILD"; exit 3; }
B=$(RUN b)
for f in $DEMOS; do rm -f "$f"; done
C=$( (go test -vet=off -count=1 ./... > /tmp/seedverify/$ID.c.log 2>&1); echo $?)
echo "$ID: a(pristine+demo, want 0)=$A b(changed+demo, want !=0)=$B c(changed+suite, want 0)=$C demo=$DEMOS"
if [ "$A" = 0 ] && [ "$B" != 0 ] && [ "$C" = 0 ] && grep -q -- "--- FAIL" /tmp/seedverify/$ID.b.log; then
  mkdir -p /verif/seeded/$ID
  cp "$SD/patch.diff" "$SD/demo_test.go" /verif/seeded/$ID/
  python3 - "$SD/meta.json" /verif/seeded/$ID/meta.json "$DEMOS" "$B" <<'PY'
import json,sys
m=json.load(open(sys.argv[1]))
m['demo_dest']=sys.argv[3]
m['confirmed']={'pristine_demo_exit':0,'changed_demo_exit':int(sys.argv[4]),'changed_suite_exit':0,
  'how':'tools/verify_seed.sh: scratch worktree of /repo HEAD; demo_cmd run before and after git apply patch.diff; existing suite run with the patch and without the demo'}
json.dump(m,open(sys.argv[2],'w'),indent=1)
PY
  echo "KEPT $ID"
else
  echo "REJECTED $ID"; tail -5 /tmp/seedverify/$ID.a.log; tail -5 /tmp/seedverify/$ID.b.log
fi
