"""What MANIFEST.json claims, per property. Edited as theorems land; `tools/mkmanifest.py` writes MANIFEST.json."""
TB = ("Trusted: Lean kernel; axioms propext/Classical.choice/Quot.sound only; the statements in lean/Props; the hand-written model "
      "(lean/Model) as tied to /repo by the correspondence check (generator reach bounds what it sees) and by regenerated facts; "
      "the environment model of the node (DESIGN App. C) where the property speaks about deliveries/refunds/system-contract discipline.")
LEAN = "Lean 4 proof (kernel-checked, all inputs) about an executable model + differential correspondence model/code + oracle search"

CLAIMS = {
 "C06": dict(technique=LEAN + "; weakest-precondition calculus over the execution monad",
   text="Theorem C06.no_gas_creation: for all 23 functions, every environment, call and pre-state, an ok result satisfies GasRemaining + Σ gasLimit ≤ GasProvided (hypotheses exactly the property's: gas < 2^64, non-zero 32-bit costs, argument bytes < 2^31); 64-bit wrap-around is modelled explicitly, so 'never wraps' is part of the statement. Tie: every run re-executes ≥ 4k generated calls (gas sweeps around every cost boundary, schedule changes) on the real code and on the model and compares status and total gas; the gas oracle (the inequality itself) runs on every implementation result.",
   note=TB),
 "C12": dict(technique=LEAN + "; induction over token lists, hex round trip",
   text="Theorems in Props/C12: the four parsers never reach a panic outcome for any input (the model has explicit panic outcomes for indexing/allocation, incl. the 3n+c wrap-around residues); parse(build(fn,args)) = (fn,args) for every name without '@' and every argument list; deploy and storage-update round trips on their exact domains with the excluded inputs shown rejected. Tie: exhaustive strings ≤ 5 over a 6-symbol alphabet + random/structured inputs through the real parsers/builder and the model, compared line by line.",
   note=TB),
 "C14": dict(technique=LEAN + "; fuel-indexed decoder loops, induction over field lists; independent spec encoder",
   text="Theorems in Props/C14: decode(encode(x)) = x for amounts (all of Option Int), role lists, metadata and token data (all values within Go's length limits); size = length for the amount codec; encoded bytes equal an independently written protobuf writer over documented field numbers (1–5 / 1 / 1–7) and the sign‖big-endian-minimal amount format. Tie: byte-for-byte comparison with the generated Marshal/Size/Unmarshal on exhaustive small buffers, boundary values and mutated encodings (~70k ops per quick run).",
   note=TB + " Decoders cannot panic in the model by construction (total functions); absence of panics in the generated Go code is observed, not proved."),
 "C17": dict(technique=LEAN + "; simulation between faulted and unfaulted runs, compositional over the execution monad",
   text="Theorem C17.fault_never_ok: for all 23 functions, inputs and pre-states, if the unfaulted run succeeds with n counted dependency calls then for every k < n the run in which the k-th call fails returns an error; fault_unreached_same / fault_keeps_errors complete the picture. Proved compositionally (FaultSim for every primitive, helper and function). Tie (this gives the model's call structure teeth): the harness wraps every injected dependency, records the dependency trace of every op and fails the k-th call for every k; traces (kind letters) and outcomes must equal the model's.",
   note=TB + " Storage reads and the pause lookup are fail-soft by interface design and are not counted, as the property states."),
 "C18": dict(technique=LEAN + "; kernel-decided facts regenerated from the real factory",
   text="Theorems in Props/C18: the activation flag after any notification sequence equals (last epoch ≥ activation) — regressions and repeats included; exactly three functions are gated; the key set of the container built by the real factory (regenerated on every run) is the 23 protocol names and each is bound to the implementing type. Tie: exhaustive epoch sequences ≤ 4 over {0,1,2,3,2^32−1} × activation epochs on the real code vs the model (111k ops).",
   note=TB),
 "C20": dict(technique=LEAN + "; per-byte kernel decision (2×256) lifted to all byte pairs; pointer-heap model for merge",
   text="Theorems in Props/C20: metadata byte laws for all 65,536 byte pairs and all other lengths; address classification consistency and documented addresses (checked against regenerated constants); checked subtraction; MergeOutputAccounts over a pointer heap: deltas added, highest nonce, later storage wins, only new transfers appended, merged-in account never mutated — also through later merges. Tie: helpers profile (all byte pairs in thorough, structured addresses 0..40, generated merge sequences incl. pointer-sharing observation) on real code vs model.",
   note=TB),
}

PENDING = "not claimed yet in this revision: model and correspondence exist, property theorems are being written (see DESIGN §9 change log)"
NOT_APPLICABLE = {p: PENDING for p in ["C01","C02","C03","C04","C05","C07","C08","C09","C10","C11","C13","C15","C16","C19"]}
