"""
Per-property configuration of /verif/check: generator profiles with their quick / thorough op budgets,
the projection (which observation fields the property is about), comparison strictness.

Projection fields: status, diff, xf (output transfers; gas limit masked unless `gas` is also projected),
gas (exact GasRemaining), gastotal (directional: implementation's remaining+forwarded <= model's),
ret, rc, logs, oa, deps.  Error *kinds* are never compared (class only).
"""

# quick tier: the history profiles run with TWO generator seeds (a seeded change must not depend on one lucky draw:
# measured in seeded/ round 8, where unrelated generator changes had moved the draw that showed an earlier seed); the
# profiles that are mostly exhaustive families (parsers, codec, helpers, activation) run with one
_FAMILIES = {"parsers", "codec", "helpers", "activation", "mapspec"}

def P(name, quick, thorough, **kw):
    d = dict(name=name, quick=quick, thorough=thorough, seeds_quick=1 if name in _FAMILIES else 2)
    d.update(kw)
    return d

E_ENV = "environment model of the node (DESIGN Appendix C): account handles by shard, rollback on error, exactly-once delivery, refund construction, system-contract discipline"

PROPS = {
    "C01": dict(profiles=[P("transfers", 3000, 400000), P("nonces", 1500, 80000), P("onechain", 500, 30000, seeds_quick=1)], fields=["status", "diff", "xf"], oracle_props=["C01", "C02"],
                assumptions=[E_ENV, "destination is never the system account 0xff..ff (global-settings store)"]),
    # a transfer that changes a world total is a supply violation too (the oracle files it under C01)
    "C02": dict(profiles=[P("supply", 3000, 300000), P("transfers", 1500, 100000), P("onechain", 500, 30000, seeds_quick=1)], fields=["status", "diff"], oracle_props=["C02", "C01"],
                assumptions=[E_ENV]),
    "C03": dict(profiles=[P("authority", 3000, 300000)], fields=["status", "diff"],
                assumptions=[E_ENV, "hand-over messages are delivered with caller = previous holder (as the repository's own cross-shard test does)"]),
    "C04": dict(profiles=[P("gates", 3000, 400000)], fields=["status", "diff"], assumptions=[E_ENV]),
    # the nonces profile crosses the byte boundaries of the nonce suffix (256, 65536, 2^32): a key computed wrongly there is a
    # write outside the footprint
    "C05": dict(profiles=[P("frame", 3000, 300000), P("nonces", 1500, 80000)], fields=["status", "diff"], assumptions=[E_ENV]),
    "C06": dict(profiles=[P("gas", 3000, 400000, seeds_quick=2)], fields=["status", "gastotal"],
                assumptions=["gas-schedule costs are non-zero and < 2^32, argument bytes < 2^31 (as the property states)"]),
    "C07": dict(profiles=[P("nonces", 3000, 300000)], fields=["status", "diff", "ret", "xf"],
                assumptions=[E_ENV, "single-creator discipline; counter < 2^64-1; exactly-once delivery of hand-over messages"]),
    "C08": dict(profiles=[P("metadata", 3000, 160000)], fields=["status", "diff", "xf", "logs"], assumptions=[E_ENV]),
    "C09": dict(profiles=[P("transfers", 3000, 300000), P("gates", 1000, 100000), P("onechain", 500, 30000, seeds_quick=1)], fields=["status", "diff"],
                assumptions=[E_ENV]),
    "C10": dict(profiles=[P("transfers", 3000, 300000), P("parsers", 3000, 400000), P("metadata", 1500, 80000)], fields=["status", "xf", "diff"],
                assumptions=[E_ENV, "attached function names are non-empty and contain no '@' (C12 carve-out)"]),
    "C11": dict(profiles=[P("adversarial", 3000, 600000, seeds_quick=2), P("transfers", 1000, 100000), P("metadata", 1200, 60000)], fields=["status", "rc"],
                assumptions=["vmInput and CallValue are non-nil (the node always sets them)", E_ENV,
                             "real allocation size is a runtime quantity the model cannot exhibit (partial): the model bounds every allocation by the argument count"]),
    "C12": dict(profiles=[P("parsers", 20000, 400000), P("nonces", 1000, 60000)], fields=["status", "xf"], strict=True),
    "C13": dict(profiles=[P("determinism", 2000, 200000)], fields=["status", "gas", "rc", "ret", "logs", "xf", "oa", "diff"],
                assumptions=["runtime aspects (map iteration order, goroutines, slice aliasing) are outside any Lean model (partial): decided by run-vs-run comparison on the implementation plus the regenerated zero-spare-capacity fact"]),
    "C14": dict(profiles=[P("codec", 20000, 400000)], fields=["status"], strict=True),
    # xf: the hand-over message carries the counter the next holder will hold (the "counter ≥ issued nonces" clause)
    "C15": dict(profiles=[P("supply", 2000, 200000), P("transfers", 2000, 200000), P("nonces", 1000, 100000), P("onechain", 500, 30000, seeds_quick=1)],
                fields=["status", "diff", "xf"], assumptions=[E_ENV]),
    "C16": dict(profiles=[P("gas", 3000, 400000, seeds_quick=2)], fields=["status", "gas", "xf"],
                assumptions=["gas maps never spell one field in two different cases (mapstructure would depend on map order)"]),
    "C17": dict(profiles=[P("faults", 3000, 200000)], fields=["status", "deps"], strict=True,
                assumptions=["storage reads and the pause lookup are fail-soft by interface design (excluded by the property)"]),
    # registry binding is behavioural: every name must price and behave as the function of that name right after the
    # factory built the container (before any schedule change) -> the gas profile (distinct prime costs) runs here too
    "C18": dict(profiles=[P("activation", 4000, 40000), P("gas", 2000, 160000, seeds_quick=2), P("supply", 1000, 40000)],
                fields=["status", "gas", "diff"], oracle_props=["C18", "C16"]),
    "C19": dict(profiles=[P("mapspec", 1500, 40000)], fields=["status"], strict=True,
                assumptions=["a data race is an event of the Go memory model no Lean model exhibits (partial): the lock discipline is decided in Lean on regenerated lock facts, races are searched with -race stress"]),
    "C20": dict(profiles=[P("helpers", 8000, 300000)], fields=["status"], strict=True),
}
