#!/bin/bash
# Diagnostic (not a registered check): which statements of /repo do the generator profiles execute?
# Builds the generator with Go's binary coverage instrumentation, runs every profile for a few seeds and prints the
# statement blocks of builtInFunctions/ and parsers/ that NO profile reached. Used to find generator gaps (DESIGN §10.3).
# usage: tools/coverage.sh [ops-per-run] [seeds]      scratch: $COVDIR (default /tmp/verif-cov, removed first)
set -eu
export GOFLAGS=-mod=mod GOPROXY=off GOSUMDB=off GOTOOLCHAIN=local
N=${1:-8000}; SEEDS=${2:-"1 2 3"}; D=${COVDIR:-/tmp/verif-cov}
rm -rf "$D"; mkdir -p "$D/data" "$D/out"
cd "$(dirname "$0")/../harness"
cp /repo/go.sum . 2>/dev/null || true
go build -tags verif -cover -coverpkg=all -o "$D/gen" ./cmd/gen
for p in transfers supply gates authority frame gas nonces metadata adversarial faults determinism activation parsers codec helpers; do
  for s in $SEEDS; do GOCOVERDIR="$D/data" "$D/gen" -profile $p -seed $s -n $N -out "$D/out/$p-$s" >/dev/null 2>&1 || echo "run failed: $p $s"; done
done
go tool covdata textfmt -i="$D/data" -o "$D/profile.txt" \
  -pkg=github.com/ElrondNetwork/elrond-vm-common/builtInFunctions,github.com/ElrondNetwork/elrond-vm-common/parsers,github.com/ElrondNetwork/elrond-vm-common
python3 - "$D/profile.txt" <<'PY'
import re, sys, collections
tot = cov = 0
unc = collections.defaultdict(list)
for l in open(sys.argv[1]):
    m = re.match(r'(.*):(\d+)\.\d+,(\d+)\.\d+ (\d+) (\d+)', l)
    if not m: continue
    f, sl, el, n, c = m.groups()
    if 'verif_hooks' in f: continue
    tot += int(n); cov += int(n) if int(c) > 0 else 0
    if int(c) == 0: unc[f.split('elrond-vm-common/')[1]].append("%s-%s" % (sl, el))
print("statements reached: %d / %d (%.1f%%)" % (cov, tot, 100.0 * cov / tot))
for f in sorted(unc): print(f, " ".join(unc[f]))
PY
rm -rf "$D"
