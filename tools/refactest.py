#!/usr/bin/env python3
"""refactest.py [ids...] — the false-alarm counterpart of seedtest.py.  For each /verif/refactors/<id>/patch.diff (a
behaviour-preserving refactoring of /repo written by an independent sub-agent): git -C /repo apply, run EVERY property's
quick check, record which ones raise an alarm (exit != 0 or a VIOLATION line), git -C /repo checkout -- . ;
writes /verif/refactors/RESULTS.json.  Expected: no alarm at all.  Never run concurrently with any other check."""
import sys, os, json, subprocess, glob, time
V = os.path.dirname(os.path.dirname(os.path.abspath(__file__)))
sys.path.insert(0, os.path.join(V, "tools"))
from claims import CLAIMS
ids = sys.argv[1:] or sorted(os.path.basename(d) for d in glob.glob(os.path.join(V, "refactors", "R*")) if os.path.isdir(d))
props = os.environ.get("REFAC_PROPS", "").split() or sorted(CLAIMS)
respath = os.path.join(V, "refactors", "RESULTS.json")
res = json.load(open(respath)) if os.path.exists(respath) else {}
def sh(c, **kw): return subprocess.run(c, shell=True, capture_output=True, text=True, **kw)
assert sh("git -C /repo status --porcelain").stdout.strip() == "", "/repo not clean"
for rid in ids:
    patch = os.path.join(V, "refactors", rid, "patch.diff")
    r = sh("git -C /repo apply " + patch)
    if r.returncode != 0:
        print(rid, "patch does not apply", r.stderr); continue
    t0 = time.time(); alarms = {}
    try:
        for p in props:
            r = sh("cd %s && ./check %s quick" % (V, p), timeout=3000)
            out = r.stdout + r.stderr
            viol = [l for l in out.split("\n") if l.startswith("VIOLATION")]
            if r.returncode != 0 or viol:
                alarms[p] = dict(exit=r.returncode, violations=viol[:3], tail=out[-1500:])
                print(rid, p, "ALARM", viol[:1])
        res[rid] = dict(checked=props, alarms=alarms, quiet=not alarms, wall_s=round(time.time() - t0, 1))
        print(rid, "QUIET" if not alarms else "ALARMS: " + " ".join(sorted(alarms)), "%.0fs" % (time.time() - t0))
    finally:
        sh("git -C /repo checkout -- . && git -C /repo clean -fdq")
    json.dump(res, open(respath, "w"), indent=1, sort_keys=True)
# the checks regenerate lean/Facts/Generated.lean from whatever /repo holds: leave the facts of the CLEAN tree behind
sh("cd %s && git checkout -- lean/Facts/Generated.lean" % V)
assert sh("git -C /repo status --porcelain").stdout.strip() == "", "/repo not clean after refactest"
