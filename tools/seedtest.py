#!/usr/bin/env python3
"""seedtest.py [ids...] — for each /verif/seeded/<id>: git -C /repo apply patch.diff, run the property's quick check,
record exit code / VIOLATION lines, git -C /repo checkout -- . ; writes /verif/seeded/RESULTS.json (which check catches which change)."""
import sys, os, json, subprocess, glob, time
V = os.path.dirname(os.path.dirname(os.path.abspath(__file__)))
sys.path.insert(0, os.path.join(V, "tools"))
from claims import CLAIMS
ids = sys.argv[1:] or sorted(os.path.basename(d) for d in glob.glob(os.path.join(V, "seeded", "C*-*")))
tier = os.environ.get("SEEDTEST_TIER", "quick")
respath = os.path.join(V, "seeded", "RESULTS.json" if os.environ.get("VERIF_NO_ORACLE") != "1" else "RESULTS-model-tie-only.json")
res = json.load(open(respath)) if os.path.exists(respath) else {}
def sh(c, **kw): return subprocess.run(c, shell=True, capture_output=True, text=True, **kw)
assert sh("git -C /repo status --porcelain").stdout.strip() == "", "/repo not clean"
for sid in ids:
    prop = sid.split("-")[0]
    if prop not in CLAIMS:
        print(sid, "property not claimed yet, skipped"); continue
    patch = os.path.join(V, "seeded", sid, "patch.diff")
    r = sh("git -C /repo apply " + patch)
    if r.returncode != 0:
        print(sid, "patch does not apply", r.stderr); continue
    t0 = time.time()
    try:
        r = sh("cd %s && ./check %s %s" % (V, prop, tier), timeout=3000)
        out = r.stdout + r.stderr
        viol = [l for l in out.split("\n") if l.startswith("VIOLATION")]
        res[sid] = dict(property=prop, tier=tier, exit=r.returncode, violations=viol[:3], caught=(r.returncode == 1 and bool(viol)),
                        with_failing_input=any("no-failing-input-found" not in v for v in viol), wall_s=round(time.time() - t0, 1))
        print(sid, "CAUGHT" if res[sid]["caught"] else "MISSED", "failing-input" if res[sid]["with_failing_input"] else "", viol[:1], "%.0fs" % (time.time() - t0))
        if not res[sid]["caught"]: print(out[-600:])
    finally:
        sh("git -C /repo checkout -- . && git -C /repo clean -fdq")
    json.dump(res, open(respath, "w"), indent=1, sort_keys=True)
# the checks regenerate lean/Facts/Generated.lean from whatever /repo holds: leave the facts of the CLEAN tree behind
sh("cd %s && git checkout -- lean/Facts/Generated.lean" % V)
assert sh("git -C /repo status --porcelain").stdout.strip() == "", "/repo not clean after seedtest"
# leave evidence of the unchanged tree behind: re-run is the caller's job
